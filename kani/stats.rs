// Harness module for core/src/render/stats.rs (child of `render::stats`, cfg(kani) only).
// @module render::stats::verif_kani
#![allow(unused_imports)]
use super::*;

fn any_tp() -> Throughput {
    let (i, o): (usize, usize) = (kani::any(), kani::any());
    kani::assume(i < (1 << 40) && o < (1 << 40));
    Throughput { i, o }
}

// @ob props=C07 tier=quick kind=P cfg=core-std timeout=900
// @fn <Throughput as AddAssign>::add_assign ; <Stats as AddAssign>::add_assign ; Stats::throughput ; Stats::throughput_mut
// @clause statistics accumulate field-wise: adding Stats adds calls, frames, time and each of the four input/output counter pairs (objects, primitives, vertices, fragments) to its own counterpart and nothing else
#[cfg(not(verif_skip_stats_accumulate_fieldwise))]
#[kani::proof]
#[kani::unwind(6)]
fn stats_accumulate_fieldwise() {
    let mut a = Stats::default();
    let mut b = Stats::default();
    let (ca, cb, fa, fb): (u16, u16, u16, u16) = (kani::any(), kani::any(), kani::any(), kani::any());
    a.calls = ca as f32;
    b.calls = cb as f32;
    a.frames = fa as f32;
    b.frames = fb as f32;
    let ta = [any_tp(), any_tp(), any_tp(), any_tp()];
    let tb = [any_tp(), any_tp(), any_tp(), any_tp()];
    (a.objs, a.prims, a.verts, a.frags) = (ta[0], ta[1], ta[2], ta[3]);
    (b.objs, b.prims, b.verts, b.frags) = (tb[0], tb[1], tb[2], tb[3]);
    let (sa, sb): (u32, u32) = (kani::any(), kani::any());
    a.time = core::time::Duration::from_secs(sa as u64);
    b.time = core::time::Duration::from_secs(sb as u64);
    a += b;
    kani::cover!(true);
    assert!(a.calls == (ca as u32 + cb as u32) as f32 && a.frames == (fa as u32 + fb as u32) as f32);
    assert!(a.time == core::time::Duration::from_secs(sa as u64 + sb as u64));
    let got = [a.objs, a.prims, a.verts, a.frags];
    let mut k = 0;
    while k < 4 {
        assert!(got[k].i == ta[k].i + tb[k].i && got[k].o == ta[k].o + tb[k].o);
        k += 1;
    }
}

include!("gen/dispatch_stats.rs");
