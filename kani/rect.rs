// Harness module for core/src/util/rect.rs (child of `util::rect`, cfg(kani) only).
// @module util::rect::verif_kani
#![allow(unused_imports)]
use super::*;

fn any_rect() -> Rect<u32> {
    Rect { left: kani::any(), top: kani::any(), right: kani::any(), bottom: kani::any() }
}

// @ob props=C08,C11 tier=quick kind=P cfg=core-std timeout=600
// @fn Rect::intersect ; Rect::contains ; Rect::bounds
// @clause the intersection of two rectangles (any mix of bounded and unbounded sides, all u32 corners) contains a point exactly when both operands contain it
#[cfg(not(verif_skip_rect_intersect_is_conjunction))]
#[kani::proof]
fn rect_intersect_is_conjunction() {
    let (a, b) = (any_rect(), any_rect());
    let (x, y): (u32, u32) = (kani::any(), kani::any());
    let i = a.intersect(&b);
    kani::cover!(i.contains(x, y));
    kani::cover!(a.contains(x, y) && !b.contains(x, y));
    assert!(i.contains(x, y) == (a.contains(x, y) && b.contains(x, y)));
}

// @ob props=C08,C11 tier=quick kind=P cfg=core-std timeout=600
// @fn Rect::contains ; Rect::is_empty ; Rect::width ; Rect::height
// @clause contains(x,y) is left <= x < right and top <= y < bottom with absent sides unbounded; a rectangle that is_empty contains no point; width/height are the clamped extents of bounded sides
#[cfg(not(verif_skip_rect_contains_spec))]
#[kani::proof]
fn rect_contains_spec() {
    let r = any_rect();
    let (x, y): (u32, u32) = (kani::any(), kani::any());
    let want = r.left.map_or(true, |l| l <= x) && r.right.map_or(true, |e| x < e)
        && r.top.map_or(true, |t| t <= y) && r.bottom.map_or(true, |e| y < e);
    kani::cover!(want);
    assert!(r.contains(x, y) == want);
    if r.is_empty() {
        assert!(!r.contains(x, y));
    }
    if let (Some(l), Some(e)) = (r.left, r.right) {
        assert!(r.width() == Some(if e >= l { e - l } else { 0 }));
    } else {
        assert!(r.width().is_none());
    }
    if let (Some(t), Some(e)) = (r.top, r.bottom) {
        assert!(r.height() == Some(if e >= t { e - t } else { 0 }));
    } else {
        assert!(r.height().is_none());
    }
}

include!("gen/dispatch_rect.rs");
