// Harness module for core/src/util/buf.rs (child of `util::buf::inner`, cfg(kani) only).
// @module util::buf::inner::verif_kani
//
// Bounded stand-ins [B] on the real iterator/slicing code (the unbounded index arithmetic is in
// /verif/verus/buf.spec.rs): u8 cells, dims <= 3x3, stride <= 4, backing length <= 12 with surplus.
#![allow(unused_imports)]
use super::*;
use crate::util::buf::{AsMutSlice2, AsSlice2, Buf2, MutSlice2, Slice2};
use crate::util::rect::Rect;

const N: usize = 12;

struct Geo {
    w: u32,
    h: u32,
    stride: u32,
    len: usize,
}

/// `fits` of the Verus unit: the data can hold the view's cells (an empty view has none).
fn fits(g: &Geo) -> bool {
    g.w <= g.stride && (g.w == 0 || g.h == 0 || ((g.h - 1) * g.stride + g.w) as usize <= g.len)
}

fn any_geo() -> Geo {
    let g = Geo { w: kani::any(), h: kani::any(), stride: kani::any(), len: kani::any() };
    kani::assume(g.w <= 3 && g.h <= 3 && g.stride <= 4 && g.len <= N);
    g
}

/// a geometry the constructor must accept: fits, and (for the documented over-strict rule) non-zero width
fn any_valid_geo() -> Geo {
    let g = any_geo();
    kani::assume(fits(&g) && g.w >= 1 && g.stride >= 1);
    g
}

fn in_view(g: &Geo, i: usize) -> Option<(u32, u32)> {
    let (x, y) = ((i % g.stride as usize) as u32, (i / g.stride as usize) as u32);
    if i < g.len && x < g.w && y < g.h { Some((x, y)) } else { None }
}

// @ob props=C11 tier=quick kind=B cfg=core-std timeout=900
// @fn Slice2::new ; MutSlice2::new ; Inner::new
// @bound dims <= 3x3, stride <= 4, data length <= 12
// @allow_panic Inner::<.*>::new
// @clause constructors reject dimensions the data cannot hold: whenever Slice2::new / MutSlice2::new return, width <= stride and (h-1)*stride + w <= data length; the view reports the requested dims and stride
#[cfg(not(verif_skip_buf_ctor_rejects_unfit))]
#[kani::proof]
#[kani::unwind(14)]
fn buf_ctor_rejects_unfit() {
    let data: [u8; N] = kani::any();
    let mut data2 = data;
    let g = any_geo();
    kani::cover!(fits(&g) && g.w >= 1);
    kani::cover!(!fits(&g));
    if kani::any() {
        let s = Slice2::new((g.w, g.h), g.stride, &data[..g.len]);
        assert!(fits(&g));
        assert!(s.width() == g.w && s.height() == g.h && s.stride() == g.stride);
    } else {
        let s = MutSlice2::new((g.w, g.h), g.stride, &mut data2[..g.len]);
        assert!(fits(&g));
        assert!(s.width() == g.w && s.height() == g.h && s.stride() == g.stride);
    }
}

// @ob props=C11 tier=quick kind=B cfg=core-std timeout=900
// @fn Inner::get ; <Inner as Index<Pos>>::index ; <Inner as Index<usize>>::index ; Inner::to_index_checked
// @bound dims <= 3x3 (w >= 1), stride <= 4, data length <= 12 with surplus; complete in the probe position (all u32 pairs)
// @clause reads through a directly constructed view equal the plain 2D array model: get(x,y) is Some(data[y*stride+x]) exactly for x<w and y<h and None otherwise; point indexing and row indexing agree with it
#[cfg(not(verif_skip_buf_view_reads_model))]
#[kani::proof]
#[kani::unwind(14)]
fn buf_view_reads_model() {
    let data: [u8; N] = kani::any();
    let g = any_valid_geo();
    let s = Slice2::new((g.w, g.h), g.stride, &data[..g.len]);
    let (x, y): (u32, u32) = (kani::any(), kani::any());
    let r = s.get([x, y]);
    kani::cover!(r.is_some() && y == 2);
    kani::cover!(r.is_none());
    if x < g.w && y < g.h {
        let want = data[(y * g.stride + x) as usize];
        assert!(r == Some(&want));
        assert!(s[[x, y]] == want);
        assert!(s[y as usize][x as usize] == want && s[y as usize].len() == g.w as usize);
    } else {
        assert!(r.is_none());
    }
}

const M: usize = 8;

fn any_small_geo() -> Geo {
    let g = Geo { w: kani::any(), h: kani::any(), stride: kani::any(), len: kani::any() };
    kani::assume(g.w >= 1 && g.w <= 2 && g.h <= 3 && g.stride <= 3 && g.len <= M && fits(&g));
    g
}

// @ob props=C11 tier=quick kind=B cfg=core-std timeout=1200
// @fn Inner::rows
// @bound dims <= 2x3 (w >= 1), stride <= 3, data length <= 8 with surplus backing data
// @clause rows() of a view of non-zero width yields exactly height() rows of width() elements, row y holding cells (0..w, y), also when the backing slice is longer than the view needs
#[cfg(not(verif_skip_buf_rows_exact))]
#[kani::proof]
#[kani::unwind(10)]
fn buf_rows_exact() {
    let data: [u8; M] = kani::any();
    let g = any_small_geo();
    let s = Slice2::new((g.w, g.h), g.stride, &data[..g.len]);
    kani::cover!(g.h == 2 && g.len > ((g.h - 1) * g.stride + g.w) as usize);
    let mut n = 0u32;
    for row in s.rows() {
        assert!(n < g.h);
        assert!(row.len() == g.w as usize);
        assert!(row[0] == data[(n * g.stride) as usize]);
        assert!(row[g.w as usize - 1] == data[(n * g.stride + g.w - 1) as usize]);
        n += 1;
    }
    assert!(n == g.h);
}

// @ob props=C11 tier=quick kind=B cfg=core-std timeout=2400
// @fn Inner::iter ; Inner::rows
// @bound dims <= 2x3 (w >= 1), stride <= 3, data length <= 8 with surplus backing data
// @clause iter() yields exactly the w*h cells of the view in row-major order
#[cfg(not(verif_skip_buf_iter_row_major))]
#[kani::proof]
#[kani::unwind(10)]
fn buf_iter_row_major() {
    let data: [u8; M] = kani::any();
    let g = any_small_geo();
    let s = Slice2::new((g.w, g.h), g.stride, &data[..g.len]);
    kani::cover!(g.h == 2 && g.w == 2);
    let mut k = 0u32;
    for v in s.iter() {
        assert!(k < g.w * g.h);
        assert!(*v == data[((k / g.w) * g.stride + k % g.w) as usize]);
        k += 1;
    }
    assert!(k == g.w * g.h);
}

// @ob props=C11 tier=quick kind=B cfg=core-std timeout=900
// @fn Inner::rows ; Inner::rows_mut ; Buf2::new ; Buf2::new_from
// @bound zero-width views with height <= 3, stride <= 4, data length <= 12; the empty 0x0 owned buffer
// @clause for zero-width views rows() does not panic and yields at most height() rows, all empty; the empty owned buffer can be constructed and iterated
#[cfg(not(verif_skip_buf_rows_zero_width))]
#[kani::proof]
#[kani::unwind(14)]
fn buf_rows_zero_width() {
    let data: [u8; N] = kani::any();
    let g = any_geo();
    kani::assume(g.w == 0);
    let s = Slice2::new((0, g.h), g.stride, &data[..g.len]);
    kani::cover!(g.stride == 0 && g.h == 2);
    let mut n = 0;
    for row in s.rows() {
        assert!(row.is_empty());
        n += 1;
    }
    assert!(n <= g.h);
    let b: Buf2<u8> = Buf2::new((0, 0));
    assert!(b.rows().count() == 0 && b.iter().count() == 0);
}

// @ob props=C11 tier=quick kind=B cfg=core-std timeout=900
// @fn <Inner as IndexMut<Pos>>::index_mut ; Inner::get_mut ; <Inner as IndexMut<usize>>::index_mut
// @bound dims <= 3x3 (w >= 1), stride <= 4, data length <= 12 with surplus
// @clause a write through point indexing, get_mut or row indexing of a mutable view changes exactly the addressed cell data[y*stride+x] of the underlying storage and nothing else
#[cfg(not(verif_skip_buf_view_write_one_cell))]
#[kani::proof]
#[kani::unwind(14)]
fn buf_view_write_one_cell() {
    let old: [u8; N] = kani::any();
    let mut data = old;
    let g = any_valid_geo();
    let (x, y): (u32, u32) = (kani::any(), kani::any());
    kani::assume(x < g.w && y < g.h);
    let v: u8 = kani::any();
    let how: u8 = kani::any();
    {
        let mut s = MutSlice2::new((g.w, g.h), g.stride, &mut data[..g.len]);
        match how % 3 {
            0 => s[[x, y]] = v,
            1 => *s.get_mut([x, y]).unwrap() = v,
            _ => s[y as usize][x as usize] = v,
        }
    }
    kani::cover!(how % 3 == 2 && y == 1);
    let at = (y * g.stride + x) as usize;
    let mut i = 0;
    while i < N {
        assert!(data[i] == if i == at { v } else { old[i] });
        i += 1;
    }
}

// @ob props=C11 tier=quick kind=B cfg=core-std timeout=900
// @fn Inner::fill ; Inner::fill_with ; Inner::rows_mut ; Inner::iter_mut
// @bound dims <= 3x3 (w >= 1), stride <= 4, data length <= 12 with surplus
// @clause fill, fill_with and iter_mut write every cell of the view and nothing else: storage index i changes iff (i mod stride, i div stride) is inside (w,h); fill_with passes the cell's own coordinates
#[cfg(not(verif_skip_buf_fill_exact_cells))]
#[kani::proof]
#[kani::unwind(14)]
fn buf_fill_exact_cells() {
    let old: [u8; N] = kani::any();
    let mut data = old;
    let g = any_valid_geo();
    let v: u8 = kani::any();
    let how: u8 = kani::any();
    {
        let mut s = MutSlice2::new((g.w, g.h), g.stride, &mut data[..g.len]);
        match how % 3 {
            0 => s.fill(v),
            1 => s.fill_with(|x, y| (16 * y + x) as u8 ^ v),
            _ => s.iter_mut().for_each(|c| *c = v),
        }
    }
    kani::cover!(how % 3 == 0 && g.h == 1 && g.len > g.w as usize);
    kani::cover!(how % 3 == 0 && g.h == 2 && g.stride > g.w);
    let mut i = 0;
    while i < N {
        match in_view(&g, i) {
            Some((x, y)) => assert!(data[i] == if how % 3 == 1 { (16 * y + x) as u8 ^ v } else { v }),
            None => assert!(data[i] == old[i]),
        }
        i += 1;
    }
}

// @ob props=C11 tier=quick kind=B cfg=core-std timeout=900
// @fn Inner::copy_from
// @bound dims <= 3x3 (w >= 1), strides <= 4, data lengths <= 12 with surplus
// @clause copy_from copies cell for cell between views of equal dims (different strides and backing lengths allowed) and changes nothing else in the destination storage
#[cfg(not(verif_skip_buf_copy_from_exact))]
#[kani::proof]
#[kani::unwind(14)]
fn buf_copy_from_exact() {
    let old: [u8; N] = kani::any();
    let src: [u8; N] = kani::any();
    let mut data = old;
    let g = any_valid_geo();
    let g2 = any_valid_geo();
    kani::assume(g.w == g2.w && g.h == g2.h);
    {
        let mut d = MutSlice2::new((g.w, g.h), g.stride, &mut data[..g.len]);
        let s = Slice2::new((g2.w, g2.h), g2.stride, &src[..g2.len]);
        d.copy_from(s);
    }
    kani::cover!(g.stride != g2.stride && g.h == 2);
    kani::cover!(g.stride == g2.stride && g.len == g2.len && g.h == 2 && g.w < g.stride);
    let mut i = 0;
    while i < N {
        match in_view(&g, i) {
            Some((x, y)) => assert!(data[i] == src[(y * g2.stride + x) as usize]),
            None => assert!(data[i] == old[i]),
        }
        i += 1;
    }
}

// @ob props=C11 tier=quick kind=B cfg=core-std timeout=900
// @fn Inner::copy_from
// @bound dims <= 3x3
// @allow_panic Inner::<.*>::copy_from|assert_failed
// @clause copy_from rejects a source whose dimensions differ from the destination's
#[cfg(not(verif_skip_buf_copy_from_rejects_mismatch))]
#[kani::proof]
#[kani::unwind(14)]
fn buf_copy_from_rejects_mismatch() {
    let mut a: Buf2<u8> = Buf2::new((3, 3));
    let b: Buf2<u8> = Buf2::new((3, 3));
    let (w1, h1, w2, h2): (u32, u32, u32, u32) = (kani::any(), kani::any(), kani::any(), kani::any());
    kani::assume(w1 <= 3 && h1 <= 3 && w2 <= 3 && h2 <= 3 && (w1 != w2 || h1 != h2));
    kani::cover!(true);
    a.slice_mut((0..w1, 0..h1)).copy_from(b.slice((0..w2, 0..h2)));
    panic!("VERIF: copy_from accepted mismatching dimensions");
}

fn any_rect_in(w: u32, h: u32) -> (u32, u32, u32, u32) {
    let (l, t, r, b): (u32, u32, u32, u32) = (kani::any(), kani::any(), kani::any(), kani::any());
    kani::assume(l <= r && r <= w && t <= b && b <= h);
    (l, t, r, b)
}

// @ob props=C11 tier=quick kind=B cfg=core-std timeout=1200
// @fn Inner::slice ; Inner::slice_mut ; Inner::resolve_bounds ; Inner::as_slice2 ; Inner::as_mut_slice2
// @bound root buffer 4x3, every sub-rectangle (empty ones included) at two nesting levels, one write through the innermost view
// @clause nested slicing is a window onto the root array: a write to cell (x,y) of a view sliced twice from an owned buffer lands at root cell (l1+l2+x, t1+t2+y) and nowhere else; reading through immutable nested slices returns the same root cells; slice dims are (r-l, b-t); zero-width and zero-height rectangles inside the parent are accepted
#[cfg(not(verif_skip_buf_nested_slice_aliasing))]
#[kani::proof]
#[kani::unwind(14)]
fn buf_nested_slice_aliasing() {
    let init: [u8; N] = kani::any();
    let mut buf = Buf2::new_from((4, 3), init);
    let (l1, t1, r1, b1) = any_rect_in(4, 3);
    let (l2, t2, r2, b2) = any_rect_in(r1 - l1, b1 - t1);
    let (x, y): (u32, u32) = (kani::any(), kani::any());
    let v: u8 = kani::any();
    let inside = x < r2 - l2 && y < b2 - t2;
    {
        let mut s1 = buf.slice_mut((l1..r1, t1..b1));
        assert!(s1.width() == r1 - l1 && s1.height() == b1 - t1 && s1.stride() == 4);
        let mut s2 = s1.slice_mut((l2..r2, t2..b2));
        assert!(s2.width() == r2 - l2 && s2.height() == b2 - t2 && s2.stride() == 4);
        if inside {
            s2[[x, y]] = v;
        } else {
            assert!(s2.get_mut([x, y]).is_none());
        }
    }
    kani::cover!(inside && l1 > 0 && t2 > 0);
    kani::cover!(r2 == l2 && b2 > t2);
    let at = if inside { ((t1 + t2 + y) * 4 + l1 + l2 + x) as usize } else { N };
    let mut i = 0;
    while i < N {
        assert!(buf.data()[i] == if i == at { v } else { init[i] });
        i += 1;
    }
    let s1 = buf.slice((l1..r1, t1..b1));
    let s2 = s1.slice((l2..r2, t2..b2));
    if inside {
        assert!(s2[[x, y]] == buf[[l1 + l2 + x, t1 + t2 + y]]);
    } else {
        assert!(s2.get([x, y]).is_none());
    }
}

// @ob props=C11 tier=quick kind=B cfg=core-std timeout=900
// @fn Inner::slice ; Inner::resolve_bounds
// @bound root buffer 4x3, all u32 rectangle corners
// @allow_panic Inner::<.*>::resolve_bounds
// @clause slicing rejects every rectangle that is not inside the view (l <= r <= w and t <= b <= h), so no slice can reach outside its parent
#[cfg(not(verif_skip_buf_slice_rejects_outside))]
#[kani::proof]
#[kani::unwind(14)]
fn buf_slice_rejects_outside() {
    let buf: Buf2<u8> = Buf2::new((4, 3));
    let (l, t, r, b): (u32, u32, u32, u32) = (kani::any(), kani::any(), kani::any(), kani::any());
    kani::cover!(r > 4);
    let s = buf.slice((l..r, t..b));
    assert!(l <= r && r <= 4 && t <= b && b <= 3);
    assert!(s.width() == r - l && s.height() == b - t);
}

// @ob props=C11 tier=quick kind=B cfg=core-std timeout=900
// @fn <Inner as Index<Pos>>::index ; <Inner as Index<usize>>::index ; Inner::to_index_strict
// @bound view 3x2 inside a 4x3 buffer; complete in the probe (all u32 pairs / all usize rows)
// @allow_panic to_index_strict
// @clause any access outside the view's bounds panics: point indexing with x >= w or y >= h and row indexing with row >= h (for every usize, also beyond 2^32) never return
#[cfg(not(verif_skip_buf_oob_access_panics))]
#[kani::proof]
#[kani::unwind(14)]
fn buf_oob_access_panics() {
    let buf: Buf2<u8> = Buf2::new((4, 3));
    let s = buf.slice((1..4, 0..2));
    if kani::any() {
        let (x, y): (u32, u32) = (kani::any(), kani::any());
        kani::assume(x >= 3 || y >= 2);
        kani::cover!(true);
        let _ = s[[x, y]];
        panic!("VERIF: out-of-bounds point index returned");
    } else {
        let row: usize = kani::any();
        kani::assume(row >= 2);
        kani::cover!(row > 0xFFFF_FFFF);
        let _ = &s[row];
        panic!("VERIF: out-of-bounds row index returned");
    }
}

// @ob props=C11 tier=quick kind=B cfg=core-std timeout=900
// @fn Buf2::new ; Buf2::new_from ; Buf2::new_with ; Buf2::data
// @bound dims <= 3x3
// @clause owned buffers: new/new_from/new_with build a w x h buffer with stride w whose cell (x,y) is data[y*w+x], filled with the default, the iterator's items in order, or init_fn(x,y)
#[cfg(not(verif_skip_buf_owned_ctors))]
#[kani::proof]
#[kani::unwind(14)]
fn buf_owned_ctors() {
    let (w, h): (u32, u32) = (kani::any(), kani::any());
    kani::assume(w >= 1 && w <= 3 && h >= 1 && h <= 3);
    let items: [u8; 9] = kani::any();
    let a: Buf2<u8> = Buf2::new((w, h));
    let b = Buf2::new_from((w, h), items);
    let c = Buf2::new_with((w, h), |x, y| (16 * y + x) as u8);
    let (x, y): (u32, u32) = (kani::any(), kani::any());
    kani::assume(x < w && y < h);
    kani::cover!(w == 3 && h == 2);
    assert!(a.width() == w && a.height() == h && a.stride() == w && a.data().len() == (w * h) as usize);
    assert!(a[[x, y]] == 0);
    assert!(b.data().len() == (w * h) as usize && b[[x, y]] == items[(y * w + x) as usize]);
    assert!(c[[x, y]] == (16 * y + x) as u8 && c.data()[(y * w + x) as usize] == (16 * y + x) as u8);
}

// @ob props=C11 tier=quick kind=P cfg=core-std timeout=600
// @fn <Rect as From<(H,V)>>::from ; <Rect as From<Range<Vec2u>>>::from ; <Rect as From<RangeFull>>::from
// @clause every range form converts to the half-open rectangle it denotes (a..b, a..=b, a.., ..b, ..=b, .., ranges of vectors, and every pair of explicit Bound values: included/excluded/unbounded starts and ends), for all u32 bounds that do not overflow
#[cfg(not(verif_skip_buf_rect_from_range_forms))]
#[kani::proof]
fn buf_rect_from_range_forms() {
    let (a, b, c, d): (u32, u32, u32, u32) = (kani::any(), kani::any(), kani::any(), kani::any());
    kani::assume(b < u32::MAX && d < u32::MAX);
    kani::cover!(true);
    let r: Rect = (a..b, c..d).into();
    assert!(r == Rect { left: Some(a), top: Some(c), right: Some(b), bottom: Some(d) });
    let r: Rect = (a..=b, c..=d).into();
    assert!(r == Rect { left: Some(a), top: Some(c), right: Some(b + 1), bottom: Some(d + 1) });
    let r: Rect = (a.., ..d).into();
    assert!(r == Rect { left: Some(a), top: None, right: None, bottom: Some(d) });
    let r: Rect = (..=b, ..).into();
    assert!(r == Rect { left: None, top: None, right: Some(b + 1), bottom: None });
    let r: Rect = (crate::math::vec2(a, c)..crate::math::vec2(b, d)).into();
    assert!(r == Rect { left: Some(a), top: Some(c), right: Some(b), bottom: Some(d) });
    let r: Rect = (..).into();
    assert!(r == Rect { left: None, top: None, right: None, bottom: None });
    // every combination of explicit bounds (RangeBounds is also implemented by pairs of Bound, with exclusive starts and inclusive ends)
    use core::ops::Bound::{self, Excluded, Included, Unbounded};
    let pick = |k: u8, v: u32| -> Bound<u32> { match k % 3 { 0 => Included(v), 1 => Excluded(v), _ => Unbounded } };
    let (k0, k1, k2, k3): (u8, u8, u8, u8) = (kani::any(), kani::any(), kani::any(), kani::any());
    kani::assume(a < u32::MAX && c < u32::MAX);
    let r: Rect = ((pick(k0, a), pick(k1, b)), (pick(k2, c), pick(k3, d))).into();
    kani::cover!(k0 % 3 == 1 && k3 % 3 == 0);
    let lo = |k: u8, v: u32| match k % 3 { 0 => Some(v), 1 => Some(v + 1), _ => None };
    let hi = |k: u8, v: u32| match k % 3 { 0 => Some(v + 1), 1 => Some(v), _ => None };
    assert!(r == Rect { left: lo(k0, a), top: lo(k2, c), right: hi(k1, b), bottom: hi(k3, d) });
}

// @ob props=C11 tier=quick kind=B cfg=core-std timeout=900
// @fn Buf2::new_from
// @bound dims <= 3x3, iterators of 0..9 items
// @allow_panic Buf2::<.*>::new_from|assert_failed
// @clause the owned-buffer constructor rejects an iterator that yields fewer than w*h items (it never builds a buffer whose data cannot hold its dimensions), and takes exactly the first w*h items of a longer one
#[cfg(not(verif_skip_buf_new_from_rejects_short_iter))]
#[kani::proof]
#[kani::unwind(14)]
fn buf_new_from_rejects_short_iter() {
    let (w, h): (u32, u32) = (kani::any(), kani::any());
    kani::assume(w >= 1 && w <= 3 && h >= 1 && h <= 3);
    let n: usize = kani::any();
    kani::assume(n <= 9);
    let items: [u8; 9] = kani::any();
    kani::cover!(n < (w * h) as usize);
    kani::cover!(n > (w * h) as usize);
    let b = Buf2::new_from((w, h), items.into_iter().take(n));
    assert!(n >= (w * h) as usize);
    assert!(b.data().len() == (w * h) as usize && b.data()[0] == items[0] && b.data()[(w * h) as usize - 1] == items[(w * h) as usize - 1]);
}

// ---- small-domain twins of the Verus contracts: they find a concrete failing input when a Verus obligation fails ----

fn any_inner<'a>(data: &'a [u8; N]) -> Inner<u8, &'a [u8]> {
    let g = any_geo();
    kani::assume(fits(&g));
    Inner { dims: (g.w, g.h), stride: g.stride, data: &data[..g.len], _pd: core::marker::PhantomData }
}

// @ob props=C11 tier=quick kind=B cfg=core-std timeout=600
// @fn Inner::to_index ; Inner::to_index_checked
// @bound dims <= 3x3, stride <= 4 (small-domain twin of the unbounded Verus obligations verus_buf_to_index / verus_buf_to_index_checked)
// @clause to_index_checked is Some(y*stride+x) exactly for in-bounds (x,y), strictly inside the view's extent
#[cfg(not(verif_skip_buf_to_index_checked_small))]
#[kani::proof]
#[kani::unwind(14)]
fn buf_to_index_checked_small() {
    let data: [u8; N] = kani::any();
    let s = any_inner(&data);
    let (x, y): (u32, u32) = (kani::any(), kani::any());
    let r = s.to_index_checked(x, y);
    kani::cover!(r.is_some());
    assert!(r.is_some() == (x < s.dims.0 && y < s.dims.1));
    if let Some(i) = r {
        assert!(i == (y * s.stride + x) as usize && i == s.to_index(x, y));
        assert!(i < ((s.dims.1 - 1) * s.stride + s.dims.0) as usize);
    }
}

// @ob props=C11 tier=quick kind=B cfg=core-std timeout=600
// @fn Inner::resolve_bounds
// @bound dims <= 3x3, stride <= 4, all u32 rectangle corners and absent corners (small-domain twin of verus_buf_resolve_bounds)
// @allow_panic Inner::<.*>::resolve_bounds
// @clause resolve_bounds rejects unless l<=r<=w and t<=b<=h; otherwise dims' = (r-l, b-t), range start = t*stride+l, length (b-t-1)*stride+(r-l) (or r-l when empty in y), inside the parent's extent
#[cfg(not(verif_skip_buf_resolve_bounds_small))]
#[kani::proof]
#[kani::unwind(14)]
fn buf_resolve_bounds_small() {
    let data: [u8; N] = kani::any();
    let s = any_inner(&data);
    let rect = Rect { left: kani::any(), top: kani::any(), right: kani::any(), bottom: kani::any() };
    let (w, h) = s.dims;
    let (l, t, r, b) = (rect.left.unwrap_or(0), rect.top.unwrap_or(0), rect.right.unwrap_or(w), rect.bottom.unwrap_or(h));
    kani::cover!(l < r && t < b);
    let (dims, rg) = s.resolve_bounds(&rect);
    assert!(l <= r && r <= w && t <= b && b <= h);
    assert!(dims == (r - l, b - t));
    assert!(rg.start <= rg.end);
    if b > t && r > l {
        assert!(rg.start == (t * s.stride + l) as usize);
        assert!(rg.end - rg.start == ((b - t - 1) * s.stride + (r - l)) as usize);
        assert!(rg.end <= ((h - 1) * s.stride + w) as usize);
    } else {
        assert!(rg.end == rg.start);
    }
    // the range never reaches beyond the data, empty rectangles included
    assert!(rg.end <= s.data.len());
}

include!("gen/dispatch_buf.rs");
