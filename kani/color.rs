// Harness module for core/src/math/color.rs (child of `math::color`, cfg(kani) only).
// @module math::color::verif_kani
#![allow(unused_imports)]
use super::*;
type F = core::primitive::f32;

/// Spec of the float -> 8-bit channel conversion: clamps, NaN -> 0.
pub(crate) fn spec_to_u8_ok(c: F, r: u8) -> bool {
    if c.is_nan() { r == 0 } else if c <= 0.0 { r == 0 } else if c >= 1.0 { r == 255 } else { true }
}

fn absdiff(a: u8, b: u8) -> u8 {
    if a > b { a - b } else { b - a }
}

// @ob props=C16 tier=thorough kind=P cfg=core-std timeout=3000
// @fn Color3<Rgb>::to_hsl ; Color3<Hsl>::to_rgb
// @clause converting any of the 2^24 8-bit RGB colours to HSL and back returns the original within 8/255 per channel, without panicking
#[cfg(not(verif_skip_color_rgb_hsl_roundtrip_u8))]
#[kani::proof]
fn color_rgb_hsl_roundtrip_u8() {
    let c: [u8; 3] = kani::any();
    let back = rgb(c[0], c[1], c[2]).to_hsl().to_rgb();
    kani::cover!(true);
    assert!(absdiff(back.r(), c[0]) <= 8 && absdiff(back.g(), c[1]) <= 8 && absdiff(back.b(), c[2]) <= 8);
}

// @ob props=C16 tier=quick kind=P cfg=core-std timeout=600
// @fn Color3<Hsl>::to_rgb ; Color4<Hsla>::to_rgba
// @clause every one of the 2^24 8-bit HSL triples converts to RGB without reaching unreachable!() or the channel-range debug assertion; the HSLA variant converts the colour identically and keeps alpha
#[cfg(not(verif_skip_color_hsl_to_rgb_total_u8))]
#[kani::proof]
fn color_hsl_to_rgb_total_u8() {
    let c: [u8; 4] = kani::any();
    let x = hsl(c[0], c[1], c[2]).to_rgb();
    let y = hsla(c[0], c[1], c[2], c[3]).to_rgba();
    kani::cover!(true);
    assert!(y.r() == x.r() && y.g() == x.g() && y.b() == x.b() && y.a() == c[3]);
}

// @ob props=C16 tier=quick kind=P cfg=core-std timeout=600
// @fn Color3<Rgb>::to_hsl
// @clause every 8-bit gray has zero saturation and keeps its lightness
#[cfg(not(verif_skip_color_grays_u8))]
#[kani::proof]
fn color_grays_u8() {
    let v: u8 = kani::any();
    let g = gray(v).to_hsl();
    kani::cover!(true);
    assert!(g.s() == 0 && g.l() == v);
}

// @ob props=C16 tier=thorough kind=P cfg=core-std timeout=3000
// @fn Color3<Rgb>::to_hsl ; Color4<Rgba>::to_hsla
// @clause to_hsl never panics for any of the 2^24 8-bit colours; to_hsla converts identically and keeps alpha
#[cfg(not(verif_skip_color_to_hsl_total_u8))]
#[kani::proof]
fn color_to_hsl_total_u8() {
    let c: [u8; 4] = kani::any();
    let x = rgb(c[0], c[1], c[2]).to_hsl();
    let y = rgba(c[0], c[1], c[2], c[3]).to_hsla();
    kani::cover!(true);
    assert!(y.h() == x.h() && y.s() == x.s() && y.l() == x.l() && y.a() == c[3]);
}

// @ob props=C16 tier=quick kind=P cfg=core-std timeout=300
// @fn Color3<Rgb>::to_rgb_u32 ; Color4<Rgba>::to_rgba_u32 ; Color4<Rgba>::to_argb_u32 ; Color3<Rgb>::to_rgba ; Color4<Rgba>::to_rgb ; Color3f<Rgb>::to_rgba ; Color4f<Rgba>::to_rgb ; Color4<Hsla>::to_hsl ; Color4f<Hsla>::to_hsl
// @clause packing puts channels in the documented byte order (0x00RRGGBB, 0xRRGGBBAA, 0xAARRGGBB) for all 2^32 words; RGB<->RGBA (and HSLA->HSL) conversions keep the channels and set alpha to opaque / drop it, for u8 and f32 channels
#[cfg(not(verif_skip_color_packing_and_alpha))]
#[kani::proof]
fn color_packing_and_alpha() {
    let c: [u8; 4] = kani::any();
    let (r, g, b, a) = (c[0] as u32, c[1] as u32, c[2] as u32, c[3] as u32);
    let c3 = rgb(c[0], c[1], c[2]);
    let c4 = rgba(c[0], c[1], c[2], c[3]);
    kani::cover!(true);
    assert!(c3.to_rgb_u32() == (r << 16 | g << 8 | b));
    assert!(c4.to_rgba_u32() == (r << 24 | g << 16 | b << 8 | a));
    assert!(c4.to_argb_u32() == (a << 24 | r << 16 | g << 8 | b));
    let up = c3.to_rgba();
    assert!(up.0 == [c[0], c[1], c[2], 0xFF]);
    assert!(c4.to_rgb().0 == [c[0], c[1], c[2]]);
    assert!(hsla(c[0], c[1], c[2], c[3]).to_hsl().0 == [c[0], c[1], c[2]]);
    let f: [F; 4] = kani::any();
    let bits = |x: F| x.to_bits();
    let upf = rgb(f[0], f[1], f[2]).to_rgba();
    assert!(bits(upf.r()) == bits(f[0]) && bits(upf.g()) == bits(f[1]) && bits(upf.b()) == bits(f[2]) && upf.a() == 1.0);
    let dn = rgba(f[0], f[1], f[2], f[3]).to_rgb();
    assert!(bits(dn.r()) == bits(f[0]) && bits(dn.g()) == bits(f[1]) && bits(dn.b()) == bits(f[2]));
    let dh = hsla(f[0], f[1], f[2], f[3]).to_hsl();
    assert!(bits(dh.h()) == bits(f[0]) && bits(dh.s()) == bits(f[1]) && bits(dh.l()) == bits(f[2]));
}

// @ob props=C16 tier=quick kind=P cfg=core-std timeout=300
// @fn Color3f<Rgb>::to_u8 ; Color3f<Rgb>::to_color3 ; Color3f<Rgb>::to_color4 ; Color4f<Rgba>::to_u8 ; Color4f<Rgba>::to_color3 ; Color4f<Rgba>::to_color4
// @clause float-to-8-bit conversion clamps for every f32: c <= 0 -> 0, c >= 1 -> 255, NaN -> 0, and is monotone in between; to_color4 of an RGB colour sets alpha 0xFF; all four entry points agree channel-wise
#[cfg(not(verif_skip_color_float_to_u8_clamps))]
#[kani::proof]
#[kani::unwind(6)]
fn color_float_to_u8_clamps() {
    let f: [F; 4] = kani::any();
    let c3 = rgb(f[0], f[1], f[2]).to_color3();
    let c4 = rgb(f[0], f[1], f[2]).to_color4();
    let d3 = rgba(f[0], f[1], f[2], f[3]).to_color3();
    let d4 = rgba(f[0], f[1], f[2], f[3]).to_color4();
    kani::cover!(f[0] > 0.0 && f[0] < 1.0);
    assert!(spec_to_u8_ok(f[0], c3.r()) && spec_to_u8_ok(f[1], c3.g()) && spec_to_u8_ok(f[2], c3.b()));
    assert!(c4.0 == [c3.r(), c3.g(), c3.b(), 0xFF]);
    assert!(d3.0 == c3.0);
    assert!(d4.0 == [c3.r(), c3.g(), c3.b(), d4.a()] && spec_to_u8_ok(f[3], d4.a()));
    // monotone: channel 0 vs channel 1 are two arbitrary floats through the same map
    if f[0] <= f[1] {
        assert!(c3.r() <= c3.g());
    }
}

// @ob props=C16 tier=quick kind=P cfg=core-std timeout=300
// @fn <Color<[u8;N],Sp> as Affine>::add ; <Color<[u8;N],Sp> as Affine>::sub
// @clause adding a difference to an 8-bit colour saturates at 0 and 255 instead of wrapping, for every colour and every per-channel difference in [-510, 510]; sub is the exact signed difference and add(sub) returns the minuend
#[cfg(not(verif_skip_color_u8_add_saturates))]
#[kani::proof]
#[kani::unwind(6)]
fn color_u8_add_saturates() {
    let c: [u8; 4] = kani::any();
    let d: [i32; 4] = kani::any();
    kani::assume(d[0] >= -510 && d[0] <= 510 && d[1] >= -510 && d[1] <= 510);
    kani::assume(d[2] >= -510 && d[2] <= 510 && d[3] >= -510 && d[3] <= 510);
    let col: Color4 = c.into();
    let r = col.add(&d.into());
    kani::cover!(c[0] as i32 + d[0] > 255);
    kani::cover!((c[1] as i32 + d[1]) < 0);
    let mut i = 0;
    while i < 4 {
        let exact = c[i] as i32 + d[i];
        let want = if exact < 0 { 0 } else if exact > 255 { 255 } else { exact };
        assert!(r.0[i] as i32 == want);
        i += 1;
    }
    let e: [u8; 4] = kani::any();
    let other: Color4 = e.into();
    let diff = col.sub(&other);
    assert!(diff.0[0] == c[0] as i32 - e[0] as i32 && diff.0[3] == c[3] as i32 - e[3] as i32);
    assert!(other.add(&diff).0 == c);
}

// @ob props=C16 tier=quick kind=P cfg=core-std timeout=600
// @fn Color3f<Rgb>::to_hsl ; Color4f<Rgba>::to_hsla
// @clause every float gray in [0, 1] has zero saturation and hue and keeps its lightness exactly; to_hsl does not panic on it; the RGBA variant keeps alpha
#[cfg(not(verif_skip_color_grays_f32))]
#[kani::proof]
#[kani::unwind(5)]
fn color_grays_f32() {
    let v: F = kani::any();
    kani::assume(v >= 0.0 && v <= 1.0);
    let g = gray(v).to_hsl();
    kani::cover!(v > 0.2 && v < 0.8);
    assert!(g.h() == 0.0 && g.s() == 0.0 && g.l() == v);
    let a: F = kani::any();
    let ga = rgba(v, v, v, a).to_hsla();
    assert!(ga.s() == 0.0 && ga.l() == v && ga.a().to_bits() == a.to_bits());
}

// @ob props=C16 tier=quick kind=P cfg=core-std-rel timeout=1200
// @fn Color3f<Rgb>::to_hsl
// @clause for every in-range float RGB colour (all f32 triples in [0,1]^3, black, white, near-black and near-white included) saturation and lightness are finite and in [0, 1], lightness is (max+min)/2, and grays have zero saturation; built with debug assertions off because the hue goes through rem_euclid (`%`), which CBMC over-approximates
#[cfg(not(verif_skip_color_to_hsl_f32_sat_light))]
#[kani::proof]
#[kani::unwind(5)]
fn color_to_hsl_f32_sat_light() {
    let c: [F; 3] = kani::any();
    kani::assume(c[0] >= 0.0 && c[0] <= 1.0 && c[1] >= 0.0 && c[1] <= 1.0 && c[2] >= 0.0 && c[2] <= 1.0);
    let x = rgb(c[0], c[1], c[2]).to_hsl();
    kani::cover!(c[0] < 1e-30 && c[1] > c[0]);
    let mx = c[0].max(c[1]).max(c[2]);
    let mn = c[0].min(c[1]).min(c[2]);
    assert!(x.s() >= 0.0 && x.s() <= 1.0);
    assert!(x.l() >= 0.0 && x.l() <= 1.0 && x.l() == (mx + mn) / 2.0);
    if mx == mn {
        assert!(x.s() == 0.0);
    }
}

// @ob props=C16 tier=quick kind=B cfg=core-std-rel timeout=900
// @fn Color3f<Hsl>::to_rgb
// @bound full saturation and mid lightness (s = 1, l = 1/2, so chroma 1 and offset 0 are constants); complete in the hue (all f32 in [0, 1]); built with debug assertions off because the in-code range debug_assert! on the middle channel depends on `%`, which CBMC over-approximates
// @clause float HSL->RGB picks the right hue sextant: for every hue with 6h strictly inside sextant k the dominant channel is exactly 1 and the weakest exactly 0 (red/blue, green/blue, green/red, blue/red, blue/green, red/green for k = 0..5), and no in-range hue reaches unreachable!(); hue 1 gives the same dominant/weakest channels as hue 0
#[cfg(not(verif_skip_color_hslf_sextant_selection))]
#[kani::proof]
#[kani::unwind(5)]
fn color_hslf_sextant_selection() {
    let h: F = kani::any();
    kani::assume(h >= 0.0 && h <= 1.0);
    let out = hsl(h, 1.0, 0.5).to_rgb();
    let h6 = h * 6.0;
    kani::cover!(h6 > 1.2 && h6 < 1.4);
    let k: u8 = kani::any();
    kani::assume(k < 6);
    if h6 >= k as F + 0.001 && h6 <= k as F + 0.999 {
        let (hi, lo) = match k {
            0 => (out.r(), out.b()),
            1 => (out.g(), out.b()),
            2 => (out.g(), out.r()),
            3 => (out.b(), out.r()),
            4 => (out.b(), out.g()),
            _ => (out.r(), out.g()),
        };
        assert!(hi == 1.0);
        assert!(lo == 0.0);
    }
    if h == 1.0 || h == 0.0 {
        assert!(out.r() == 1.0 && out.b() == 0.0);
    }
}

// @ob props=C16 tier=quick kind=P cfg=core-std-rel timeout=900
// @fn Color4f<Hsla>::to_rgba ; Color4f<Hsla>::to_hsl ; Color4f<Rgba>::to_hsla
// @clause the float HSLA/RGBA conversions carry alpha through unchanged (bit for bit) for every in-range colour and every alpha value
#[cfg(not(verif_skip_color_hslaf_keeps_alpha))]
#[kani::proof]
#[kani::unwind(6)]
fn color_hslaf_keeps_alpha() {
    let c: [F; 4] = kani::any();
    kani::assume(c[0] >= 0.0 && c[0] <= 1.0 && c[1] >= 0.0 && c[1] <= 1.0 && c[2] >= 0.0 && c[2] <= 1.0);
    let out = hsla(c[0], c[1], c[2], c[3]).to_rgba();
    kani::cover!(c[3] > 0.2 && c[3] < 0.8);
    assert!(out.a().to_bits() == c[3].to_bits());
    let back = rgba(c[0], c[1], c[2], c[3]).to_hsla();
    assert!(back.a().to_bits() == c[3].to_bits());
}

// Not claimed: the rest of the float HSL<->RGB pair (round trip within 1e-4, the middle channel). Both directions go through
// `%` / rem_euclid, which CBMC over-approximates (DESIGN.md C16 [U]).

include!("gen/dispatch_color.rs");
