// Harness module for core/src/render/ctx.rs (child of `render::ctx`, cfg(kani) only).
// @module render::ctx::verif_kani
#![allow(unused_imports)]
use super::*;
type F = core::primitive::f32;

/// The depth predicate as the property states it: no test passes every fragment; `Less` passes iff the stored reciprocal
/// depth is smaller than the new one (a larger reciprocal depth is nearer); NaN never passes a configured test.
pub(crate) fn spec_depth_pass(t: Option<Ordering>, new: F, curr: F) -> bool {
    match t {
        None => true,
        Some(Ordering::Less) => curr < new,
        Some(Ordering::Equal) => curr == new,
        Some(Ordering::Greater) => curr > new,
    }
}

// @ob props=C06,C07 tier=quick kind=P cfg=core-std timeout=300
// @fn Context::depth_test
// @clause contract of the depth predicate (in place on Context::depth_test), for all f32 pairs and all four settings: the result is exactly the specified predicate; in particular None passes everything, Less passes iff curr < new, and NaN never passes a configured test
#[cfg(not(verif_skip_ctx_depth_test_contract))]
#[kani::proof_for_contract(Context::depth_test)]
fn ctx_depth_test_contract() {
    let k: u8 = kani::any();
    kani::assume(k < 4);
    let ctx = Context {
        depth_test: match k { 0 => None, 1 => Some(Ordering::Less), 2 => Some(Ordering::Equal), _ => Some(Ordering::Greater) },
        ..Context::default()
    };
    let (new, curr): (F, F) = (kani::any(), kani::any());
    let r = ctx.depth_test(new, curr);
    assert!(r == spec_depth_pass(ctx.depth_test, new, curr)); // explicit, for native replay
}

include!("gen/dispatch_ctx.rs");
