// Harness module for core/src/render.rs (child of `render`, cfg(kani) only).
// @module render::verif_kani
//
// render() itself does not fit a harness (DESIGN L4); only the named helpers it calls carry obligations.
#![allow(unused_imports)]
use super::clip::{ClipVec, ClipVert};
use super::*;
use crate::geom::{vertex, Tri, Vertex};
use crate::math::point::pt3;
type F = core::primitive::f32;

fn sv(x: F, y: F) -> Vertex<raster::ScreenPt, ()> {
    vertex(pt3(x, y, 1.0), ())
}

fn any_coord() -> i8 {
    let c: i8 = kani::any();
    kani::assume(c >= -8 && c <= 8);
    c
}

// @ob props=C07 tier=quick kind=B cfg=core-std timeout=900
// @fn is_backface
// @bound integer screen coordinates |c| <= 8 (all products exact in f32)
// @clause the winding test is the sign of the screen-space signed area: is_backface is true iff (v1-v0) x (v2-v0) > 0, so for a triangle of non-zero area exactly one of its two vertex orders is a back face (swapping two vertices flips the answer) and a zero-area triangle is never a back face
#[cfg(not(verif_skip_render_is_backface_signed_area))]
#[kani::proof]
fn render_is_backface_signed_area() {
    let c = [any_coord(), any_coord(), any_coord(), any_coord(), any_coord(), any_coord()];
    let f = |i: usize| c[i] as F;
    let tri = [sv(f(0), f(1)), sv(f(2), f(3)), sv(f(4), f(5))];
    let swapped = [sv(f(0), f(1)), sv(f(4), f(5)), sv(f(2), f(3))];
    let area2 = (c[2] as i32 - c[0] as i32) * (c[5] as i32 - c[1] as i32) - (c[3] as i32 - c[1] as i32) * (c[4] as i32 - c[0] as i32);
    kani::cover!(area2 > 0);
    kani::cover!(area2 == 0);
    assert!(is_backface(&tri) == (area2 > 0));
    assert!(is_backface(&swapped) == (area2 < 0));
}

fn cv(z: F) -> ClipVert<u8> {
    // the outcode is irrelevant to depth_sort: compute it once for a concrete point, then set the (public) position
    let mut v = ClipVert::new(vertex(ClipVec::new([0.0, 0.0, 0.0, 1.0]), 0u8));
    v.pos = ClipVec::new([0.0, 0.0, z, 1.0]);
    v
}

fn key(t: &Tri<ClipVert<u8>>) -> F {
    t.0[0].pos.z() + t.0[1].pos.z() + t.0[2].pos.z()
}

// @ob props=C06 tier=thorough kind=B cfg=core-std timeout=7200
// @fn depth_sort
// @bound 2 triangles; complete in the depths (all finite z in [-1e6, 1e6])
// @clause depth sorting orders triangles by the sort key the code uses (the sum of the three vertex depths): non-decreasing for FrontToBack, non-increasing for BackToFront; the result is a permutation of the input (each tagged triangle still present once, carrying its own depths); so for triangles with disjoint depth ranges BackToFront delivers painter's order
#[cfg(not(verif_skip_render_depth_sort_orders_by_key))]
#[kani::proof]
#[kani::unwind(10)]
fn render_depth_sort_orders_by_key() {
    let z: [F; 6] = kani::any();
    let mut i = 0;
    while i < 6 {
        kani::assume(z[i] >= -1.0e6 && z[i] <= 1.0e6);
        i += 1;
    }
    let mk = |k: usize, tag: u8| {
        let mut t = Tri([cv(z[3 * k]), cv(z[3 * k + 1]), cv(z[3 * k + 2])]);
        t.0[0].attrib = tag;
        t
    };
    let mut tris = [mk(0, 10), mk(1, 20)];
    let ftb: bool = kani::any();
    depth_sort(&mut tris, if ftb { DepthSort::FrontToBack } else { DepthSort::BackToFront });
    kani::cover!(ftb && tris[0].0[0].attrib == 20);
    let (k0, k1) = (key(&tris[0]), key(&tris[1]));
    if ftb {
        assert!(k0 <= k1);
    } else {
        assert!(k0 >= k1);
    }
    let tags = [tris[0].0[0].attrib, tris[1].0[0].attrib];
    assert!((tags[0] == 10 && tags[1] == 20) || (tags[0] == 20 && tags[1] == 10));
    let mut j = 0;
    while j < 2 {
        let k = (tags[j] / 10 - 1) as usize;
        assert!(tris[j].0[0].pos.z() == z[3 * k] && tris[j].0[1].pos.z() == z[3 * k + 1] && tris[j].0[2].pos.z() == z[3 * k + 2]);
        j += 1;
    }
}

// Tried and dropped: render() itself on a tiny scene (one concrete triangle wholly inside the frustum, a counting target, symbolic
// vertex order / cull mode / mirrored viewport, no-std build so that Stats has no timer) to decide the cull arms and the stats
// bookkeeping: 25 min and 7.8 GB without a verdict (the Vec-based vertex/triangle/clip buffers again). The cull arms stay [U] (L4).
// Tried again with NOTHING symbolic (last session): render() of one concrete triangle through an 8x8 viewport into a counting
// target, one harness per scene (wholly off-screen: statistics of a call in which nothing survives clipping; back/front/no
// culling x both vertex orders; back-face culling under a y-mirrored viewport), no-std build: 40 min and 9.5 GB each without a
// verdict (CBMC does not propagate the concrete vertex data through the heap-allocated Vecs, so it still explores the clip loops).
// Seeds C07b and C07c stay missed/undecided.

// @ob props=C06,C02 tier=quick kind=B cfg=core-std timeout=1800
// @fn depth_sort
// @bound 2 triangles whose vertices share one depth each (so the sort key is 3z, exact up to one rounding); complete in the two depths (all finite z in [-1e6, 1e6], negative clip-space depths included)
// @clause depth sorting orders by depth for every sign of the key: after FrontToBack the nearer (smaller z) triangle comes first, after BackToFront the farther one; nothing is lost or duplicated. For C02: the comparator decides every pair by the strict order of the keys (never "equal" for different keys), i.e. it is the total order slice::sort requires -- an inconsistent comparator makes the sort panic on longer inputs
#[cfg(not(verif_skip_render_depth_sort_two_flat))]
#[kani::proof]
#[kani::unwind(10)]
fn render_depth_sort_two_flat() {
    let (za, zb): (F, F) = (kani::any(), kani::any());
    kani::assume(za >= -1.0e6 && za <= 1.0e6 && zb >= -1.0e6 && zb <= 1.0e6);
    // the key the code sorts by; two depths one ulp apart can have equal keys after rounding (DESIGN 3a.3): no exact ties
    let (ka, kb) = ((za + za) + za, (zb + zb) + zb);
    kani::assume(ka != kb);
    let mk = |z: F, tag: u8| {
        let mut t = Tri([cv(z), cv(z), cv(z)]);
        t.0[0].attrib = tag;
        t
    };
    let mut tris = [mk(za, 1), mk(zb, 2)];
    let ftb: bool = kani::any();
    depth_sort(&mut tris, if ftb { DepthSort::FrontToBack } else { DepthSort::BackToFront });
    kani::cover!(za < 0.0 && zb > 0.0 && !ftb);
    let first_is_a = tris[0].0[0].attrib == 1;
    assert!(tris[0].0[0].attrib + tris[1].0[0].attrib == 3);
    assert!(first_is_a == if ftb { ka < kb } else { ka > kb });
    assert!(tris[0].0[1].pos.z() == if first_is_a { za } else { zb });
}

include!("gen/dispatch_render.rs");
