// Harness module for core/src/render/target.rs (child of `render::target`, cfg(kani) only).
// @module render::target::verif_kani
#![allow(unused_imports)]
use super::*;
use crate::math::color::{rgba, Color4};
use crate::math::point::pt3;
use crate::math::vary::Vary;
use crate::math::vec::vec3;
use crate::render::raster::Frag;
use crate::util::buf::Buf2;
use core::cmp::Ordering;
type F = core::primitive::f32;

const W: usize = 3;
const H: usize = 2;
const NEW_COL: u32 = 0x04010203; // rgba(1,2,3,4).to_argb_u32()

fn any_ctx() -> Context {
    let k: u8 = kani::any();
    kani::assume(k < 4);
    Context {
        depth_test: match k { 0 => None, 1 => Some(Ordering::Less), 2 => Some(Ordering::Equal), _ => Some(Ordering::Greater) },
        color_write: kani::any(),
        depth_write: kani::any(),
        ..Context::default()
    }
}

/// The depth predicate as the property states it: none passes everything; Less means the new reciprocal depth is larger (nearer).
fn spec_pass(t: Option<Ordering>, new: F, curr: F) -> bool {
    match t {
        None => true,
        Some(Ordering::Less) => curr < new,
        Some(Ordering::Equal) => curr == new,
        Some(Ordering::Greater) => curr > new,
    }
}

struct Setup {
    y: usize,
    x0: usize,
    x1: usize,
    z: F,
    dz: F,
    discard: bool,
}

fn any_setup(h: usize) -> Setup {
    let (y, x0, x1): (usize, usize, usize) = (kani::any(), kani::any(), kani::any());
    // the in-bounds precondition delivered by the raster contracts: row inside, both ends <= width (either order)
    kani::assume(y < h && x0 <= W && x1 <= W);
    let (z, dz): (F, F) = (kani::any(), kani::any());
    kani::assume(z >= 0.001 && z <= 1.0 && dz >= -0.1 && dz <= 0.1);
    Setup { y, x0, x1, z, dz, discard: kani::any() }
}

fn scanline(s: &Setup) -> Scanline<()> {
    let n = if s.x1 >= s.x0 { (s.x1 - s.x0) as u32 } else { 0 };
    Scanline {
        y: s.y,
        xs: s.x0..s.x1,
        vs: (pt3(s.x0 as F + 0.5, s.y as F + 0.5, s.z), ()).vary((vec3(1.0, 0.0, s.dz), ()), Some(n)),
    }
}

// @ob props=C02,C06,C07 tier=quick kind=B cfg=core-std timeout=1800
// @fn <Framebuf<Col,Dep> as Target>::rasterize ; Context::depth_test ; Scanline::fragments
// @bound one framebuffer row of 3 pixels (every span 0 <= x0,x1 <= 3 in either order, so every span length <= 3); complete in the depth values, buffer contents, all 4 depth predicates x color_write x depth_write x discarding/non-discarding shader
// @clause per-pixel update of the colour+depth target: given span ends <= width it never panics; cells outside [x0,x1) keep colour and depth bit for bit; inside, the fragment passes iff the configured predicate holds (none: always; Less: new reciprocal depth larger), colour is written iff pass, shader returned a colour and color_write, depth iff pass, shader returned a colour and depth_write; with test and writes on z' = max(z, z_f) and the colour is the fragment's iff z_f > z; reversed spans are empty; Throughput.i = span length, .o = colour writes; finite depths stay non-NaN
#[cfg(not(verif_skip_target_framebuf_update))]
#[kani::proof]
#[kani::unwind(6)]
fn target_framebuf_update() {
    let mut fb = Framebuf { color_buf: Buf2::<u32>::new((W as u32, 1)), depth_buf: Buf2::<F>::new((W as u32, 1)) };
    let z_old: [F; W] = kani::any();
    let c_old: [u32; W] = kani::any();
    let mut i = 0;
    while i < W {
        kani::assume(z_old[i].is_finite());
        fb.depth_buf[[i as u32, 0]] = z_old[i];
        fb.color_buf[[i as u32, 0]] = c_old[i];
        i += 1;
    }
    let s = any_setup(1);
    let ctx = any_ctx();
    let discard = s.discard;
    let fs = |_f: Frag<()>| -> Option<Color4> { if discard { None } else { Some(rgba(1, 2, 3, 4)) } };
    let io = fb.rasterize(scanline(&s), &fs, &ctx);
    kani::cover!(s.x1 >= s.x0 + 2);
    kani::cover!(s.x1 < s.x0);
    let len = if s.x1 >= s.x0 { s.x1 - s.x0 } else { 0 };
    assert!(io.i == len);
    let mut writes = 0usize;
    let mut zf = s.z;
    let mut i = 0;
    while i < W {
        let (zi, ci) = (fb.depth_buf[[i as u32, 0]], fb.color_buf[[i as u32, 0]]);
        let (zo, co) = (z_old[i], c_old[i]);
        let inside = i >= s.x0 && i < s.x1;
        if !inside {
            assert!(zi.to_bits() == zo.to_bits() && ci == co);
        } else {
            let pass = spec_pass(ctx.depth_test, zf, zo) && !discard;
            if pass && ctx.color_write {
                assert!(ci == NEW_COL);
                writes += 1;
            } else {
                assert!(ci == co);
            }
            if pass && ctx.depth_write {
                assert!(zi.to_bits() == zf.to_bits());
            } else {
                assert!(zi.to_bits() == zo.to_bits());
            }
            if ctx.depth_test == Some(Ordering::Less) && ctx.depth_write && ctx.color_write && !discard {
                // hidden-surface rule: the nearer (larger reciprocal depth) of old and new survives
                assert!(zi == if zf > zo { zf } else { zo });
                assert!((ci == NEW_COL) == (zf > zo) || co == NEW_COL);
            }
            assert!(!zi.is_nan());
            zf += s.dz;
        }
        i += 1;
    }
    assert!(io.o == writes);
}

// @ob props=C02,C06 tier=quick kind=B cfg=core-std timeout=1800
// @fn <Framebuf<Col,Dep> as Target>::rasterize
// @bound framebuffer 3x2, every row and every span; default context (depth test Less, both writes on), non-discarding shader
// @clause the scanline's row is the only row written: every cell of the other row keeps colour and depth, cells of the addressed row outside [x0,x1) too, and no row/span inside the buffer makes it panic
#[cfg(not(verif_skip_target_framebuf_rows))]
#[kani::proof]
#[kani::unwind(6)]
fn target_framebuf_rows() {
    let mut fb = Framebuf { color_buf: Buf2::<u32>::new((W as u32, H as u32)), depth_buf: Buf2::<F>::new((W as u32, H as u32)) };
    // old depth 0 and a non-decreasing reciprocal depth along the span: every fragment (z >= 0.001) passes the default Less test
    let s = any_setup(H);
    kani::assume(s.dz >= 0.0);
    let ctx = Context::default();
    let fs = |_f: Frag<()>| -> Option<Color4> { Some(rgba(1, 2, 3, 4)) };
    let io = fb.rasterize(scanline(&s), &fs, &ctx);
    kani::cover!(s.y == 1 && s.x1 > s.x0 + 1);
    let len = if s.x1 >= s.x0 { s.x1 - s.x0 } else { 0 };
    assert!(io.i == len && io.o == len);
    let mut j = 0;
    while j < H {
        let mut i = 0;
        while i < W {
            let inside = j == s.y && i >= s.x0 && i < s.x1;
            let (zi, ci) = (fb.depth_buf[[i as u32, j as u32]], fb.color_buf[[i as u32, j as u32]]);
            if inside {
                assert!(ci == NEW_COL && zi >= 0.001 - 0.5);
            } else {
                assert!(ci == 0 && zi == 0.0);
            }
            i += 1;
        }
        j += 1;
    }
}

// @ob props=C02,C07 tier=quick kind=B cfg=core-std timeout=1800
// @fn <Buf as Target>::rasterize ; Scanline::fragments
// @bound colour buffer 3x2 (every row, every span 0 <= x0,x1 <= 3 in either order); complete in the contents and flags
// @clause per-pixel update of the colour-only target: never panics for in-bounds rows/spans; cells outside [x0,x1) of the row unchanged; inside, colour written iff the shader returned a colour and color_write (no depth test); Throughput.i = span length, .o = colour writes
#[cfg(not(verif_skip_target_colorbuf_update))]
#[kani::proof]
#[kani::unwind(6)]
fn target_colorbuf_update() {
    let mut cb = Buf2::<u32>::new((W as u32, H as u32));
    let c_old: [[u32; W]; H] = kani::any();
    let mut j = 0;
    while j < H {
        let mut i = 0;
        while i < W {
            cb[[i as u32, j as u32]] = c_old[j][i];
            i += 1;
        }
        j += 1;
    }
    let s = any_setup(H);
    let ctx = any_ctx();
    let discard = s.discard;
    let fs = |_f: Frag<()>| -> Option<Color4> { if discard { None } else { Some(rgba(1, 2, 3, 4)) } };
    let io = cb.rasterize(scanline(&s), &fs, &ctx);
    kani::cover!(s.x1 >= s.x0 + 2);
    let len = if s.x1 >= s.x0 { s.x1 - s.x0 } else { 0 };
    assert!(io.i == len);
    let mut writes = 0usize;
    let mut j = 0;
    while j < H {
        let mut i = 0;
        while i < W {
            let ci = cb[[i as u32, j as u32]];
            let inside = j == s.y && i >= s.x0 && i < s.x1;
            if inside && !discard && ctx.color_write {
                assert!(ci == NEW_COL);
                writes += 1;
            } else {
                assert!(ci == c_old[j][i]);
            }
            i += 1;
        }
        j += 1;
    }
    assert!(io.o == writes);
}

// @ob props=C06,C07 tier=quick kind=B cfg=core-std timeout=1800
// @fn <Framebuf<Col,Dep> as Target>::rasterize
// @bound one framebuffer row of 3 pixels, spans of at most 2 fragments; all predicates and flags
// @clause modular: against the CONTRACT of Context::depth_test alone (its body replaced by the contract), the per-pixel update holds: writes only inside the span, colour iff pass & colour returned & color_write, depth iff pass & colour returned & depth_write
#[cfg(not(verif_skip_target_framebuf_update_modular))]
#[kani::proof]
#[kani::stub_verified(Context::depth_test)]
#[kani::unwind(6)]
fn target_framebuf_update_modular() {
    let mut fb = Framebuf { color_buf: Buf2::<u32>::new((W as u32, 1)), depth_buf: Buf2::<F>::new((W as u32, 1)) };
    let z_old: [F; W] = kani::any();
    let mut i = 0;
    while i < W {
        kani::assume(z_old[i].is_finite());
        fb.depth_buf[[i as u32, 0]] = z_old[i];
        i += 1;
    }
    let s = any_setup(1);
    kani::assume(s.x1 <= s.x0 + 2);
    let ctx = any_ctx();
    let discard = s.discard;
    let fs = |_f: Frag<()>| -> Option<Color4> { if discard { None } else { Some(rgba(1, 2, 3, 4)) } };
    let _ = fb.rasterize(scanline(&s), &fs, &ctx);
    kani::cover!(s.x1 == s.x0 + 2);
    let mut zf = s.z;
    let mut i = 0;
    while i < W {
        let (zi, ci) = (fb.depth_buf[[i as u32, 0]], fb.color_buf[[i as u32, 0]]);
        let inside = i >= s.x0 && i < s.x1;
        if !inside {
            assert!(zi.to_bits() == z_old[i].to_bits() && ci == 0);
        } else {
            let pass = spec_pass(ctx.depth_test, zf, z_old[i]) && !discard;
            assert!((ci == NEW_COL) == (pass && ctx.color_write));
            assert!(zi.to_bits() == if pass && ctx.depth_write { zf.to_bits() } else { z_old[i].to_bits() });
            zf += s.dz;
        }
        i += 1;
    }
}

include!("gen/dispatch_target.rs");
