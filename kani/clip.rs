// Harness module for core/src/render/clip.rs (child of `render::clip`, cfg(kani) only).
// @module render::clip::verif_kani
//
// Structural part of C03 only. Everything that sends symbolic floats AND symbolic control through
// clip_simple_polygon exhausts CBMC's memory (DESIGN.md 1, L6): control values (outcodes) are concrete here,
// the float payload is symbolic.
#![allow(unused_imports)]
use super::view_frustum::{outcode, status, PLANES};
use super::*;
use crate::geom::{vertex, Tri};
type F = core::primitive::f32;

fn any_finite() -> F {
    let x: F = kani::any();
    kani::assume(x.is_finite());
    x
}

fn any_pos() -> ClipVec {
    [any_finite(), any_finite(), any_finite(), any_finite()].into()
}

/// The six frustum inequalities in the order of the outcode bits: a point is OUTSIDE plane k iff dist_k > 0.
fn dist_spec(k: usize, p: &ClipVec) -> F {
    let [x, y, z, w] = p.0;
    match k {
        0 => -z - w,
        1 => z - w,
        2 => -x - w,
        3 => x - w,
        4 => -y - w,
        _ => y - w,
    }
}

/// Postcondition of view_frustum::outcode: r < 64 and, for finite points, bit k is set iff the k-th frustum inequality is violated.
pub(crate) fn spec_outcode_ok(p: &ClipVec, r: u8) -> bool {
    let finite = p.0[0].is_finite() && p.0[1].is_finite() && p.0[2].is_finite() && p.0[3].is_finite();
    let mut ok = r < 64;
    let mut k = 0;
    while k < 6 {
        ok = ok && (!finite || ((r >> k) & 1 == 1) == (dist_spec(k, p) > 0.0));
        k += 1;
    }
    ok
}

macro_rules! plane_harness {
    ($name:ident, $k:expr) => {
        #[kani::proof]
        #[kani::unwind(6)]
        fn $name() {
            let p = any_pos();
            let d = PLANES[$k].signed_dist(&p);
            kani::cover!(d > 0.0);
            kani::cover!(d < 0.0);
            assert!(d == dist_spec($k, &p));
            assert!(PLANES[$k].outcode(&p) == if dist_spec($k, &p) > 0.0 { 1u8 << $k } else { 0 });
        }
    };
}

// @ob props=C03,C02 tier=quick kind=P cfg=core-std timeout=900
// @fn ClipPlane::signed_dist ; ClipPlane::outcode ; ClipPlane::new
// @clause near plane: for every finite clip-space point the signed distance is exactly -z-w and the outcode bit 1 is set iff it is positive
plane_harness!(clip_plane_near, 0);
// @ob props=C03,C02 tier=quick kind=P cfg=core-std timeout=900
// @fn ClipPlane::signed_dist ; ClipPlane::outcode
// @clause far plane: signed distance exactly z-w, bit 2 set iff positive
plane_harness!(clip_plane_far, 1);
// @ob props=C03,C02 tier=quick kind=P cfg=core-std timeout=900
// @fn ClipPlane::signed_dist ; ClipPlane::outcode
// @clause left plane: signed distance exactly -x-w, bit 4 set iff positive
plane_harness!(clip_plane_left, 2);
// @ob props=C03,C02 tier=quick kind=P cfg=core-std timeout=900
// @fn ClipPlane::signed_dist ; ClipPlane::outcode
// @clause right plane: signed distance exactly x-w, bit 8 set iff positive
plane_harness!(clip_plane_right, 3);
// @ob props=C03,C02 tier=quick kind=P cfg=core-std timeout=900
// @fn ClipPlane::signed_dist ; ClipPlane::outcode
// @clause bottom plane: signed distance exactly -y-w, bit 16 set iff positive
plane_harness!(clip_plane_bottom, 4);
// @ob props=C03,C02 tier=quick kind=P cfg=core-std timeout=900
// @fn ClipPlane::signed_dist ; ClipPlane::outcode
// @clause top plane: signed distance exactly y-w, bit 32 set iff positive
plane_harness!(clip_plane_top, 5);

// @ob props=C03,C02 tier=thorough kind=P cfg=core-std timeout=3600
// @fn view_frustum::outcode ; ClipVert::new ; ClipPlane::is_inside
// @clause type invariant of ClipVert, modular step: for every point (any bit pattern) the stored outcode is exactly the union of the six per-plane outcode bits (each of which is pinned to its frustum inequality by the clip_plane_* obligations), is < 64, is_inside(plane k) iff bit k is clear, and position and attribute are stored unchanged
#[cfg(not(verif_skip_clip_outcode_is_union_of_planes))]
#[kani::proof]
#[kani::unwind(8)]
fn clip_outcode_is_union_of_planes() {
    let p: ClipVec = [kani::any(), kani::any(), kani::any(), kani::any()].into();
    let a: F = kani::any();
    let v = ClipVert::new(vertex(p, a));
    kani::cover!(v.outcode == 0);
    kani::cover!(v.outcode == (1 | 4 | 32));
    let mut want = 0u8;
    let mut k = 0;
    while k < 6 {
        let bit = PLANES[k].outcode(&p);
        assert!(bit == 0 || bit == 1u8 << k);
        assert!(PLANES[k].is_inside(&v) == (bit == 0));
        want |= bit;
        k += 1;
    }
    assert!(v.outcode == want && outcode(&p) == want && want < 64);
    assert!(v.pos.0[0].to_bits() == p.0[0].to_bits() && v.pos.0[3].to_bits() == p.0[3].to_bits() && v.attrib.to_bits() == a.to_bits());
}

// @ob props=C03,C02 tier=quick kind=P cfg=core-std timeout=2400
// @fn view_frustum::outcode ; ClipVert::new ; ClipPlane::is_inside
// @clause type invariant of ClipVert established by its constructor (monolithic version; the same postcondition is the in-place contract of view_frustum::outcode, whose proof_for_contract form costs 10 min of symbolic execution and runs in the thorough tier): for every finite point, bit k of the outcode is set iff the k-th frustum inequality is violated (outcode 0 iff -w <= x,y,z <= w); position and attribute are stored unchanged; is_inside(plane k) iff bit k is clear
#[cfg(not(verif_skip_clip_outcode_matches_planes))]
#[kani::proof]
#[kani::unwind(8)]
fn clip_outcode_matches_planes() {
    let p = any_pos();
    let a: F = kani::any();
    let v = ClipVert::new(vertex(p, a));
    kani::cover!(v.outcode == 0);
    kani::cover!(v.outcode == (1 | 4 | 32));
    let [x, y, z, w] = p.0;
    assert!((v.outcode == 0) == (-w <= z && z <= w && -w <= x && x <= w && -w <= y && y <= w));
    let mut k = 0;
    while k < 6 {
        assert!(((v.outcode >> k) & 1 == 1) == (dist_spec(k, &p) > 0.0));
        assert!(PLANES[k].is_inside(&v) == !(dist_spec(k, &p) > 0.0));
        k += 1;
    }
    assert!(v.outcode < 64 && outcode(&p) == v.outcode);
    assert!(v.pos.0 == p.0 && v.attrib.to_bits() == a.to_bits());
}

// @ob props=C03,C02 tier=thorough kind=P cfg=core-std timeout=3600
// @fn view_frustum::outcode
// @clause contract of view_frustum::outcode (in place): the result is < 64 and, for every finite point, bit k is set iff the k-th frustum inequality is violated
#[cfg(not(verif_skip_clip_outcode_contract))]
#[kani::proof_for_contract(view_frustum::outcode)]
#[kani::unwind(8)]
fn clip_outcode_contract() {
    let p: ClipVec = [kani::any(), kani::any(), kani::any(), kani::any()].into();
    let r = outcode(&p);
    assert!(spec_outcode_ok(&p, r)); // explicit, for native replay
}

// @ob props=C03,C02 tier=quick kind=P cfg=core-std timeout=600
// @fn ClipVert::new
// @clause modular: against the CONTRACT of view_frustum::outcode alone (its body replaced by the contract), ClipVert::new establishes the type invariant outcode <=> frustum inequalities for every finite position and stores position and attribute unchanged
#[cfg(not(verif_skip_clip_vert_new_modular))]
#[kani::proof]
#[kani::stub_verified(view_frustum::outcode)]
#[kani::unwind(8)]
fn clip_vert_new_modular() {
    let p = any_pos();
    let a: F = kani::any();
    let v = ClipVert::new(vertex(p, a));
    kani::cover!(v.outcode == 0);
    kani::cover!(v.outcode != 0);
    assert!(spec_outcode_ok(&p, v.outcode));
    let [x, y, z, w] = p.0;
    assert!((v.outcode == 0) == (-w <= z && z <= w && -w <= x && x <= w && -w <= y && y <= w));
    assert!(v.pos.0 == p.0 && v.attrib.to_bits() == a.to_bits());
}

fn vert_oc(oc: u8) -> ClipVert<F> {
    let pos: ClipVec = [kani::any(), kani::any(), kani::any(), kani::any()].into();
    ClipVert { pos, attrib: kani::any(), outcode: oc }
}

// @ob props=C03 tier=quick kind=P cfg=core-std timeout=600
// @fn view_frustum::status
// @clause trivial accept/reject over all 2^18 outcode triples: Hidden iff some plane has all three vertices outside; Visible iff all outcodes are zero; Clipped otherwise
#[cfg(not(verif_skip_clip_status_all_outcodes))]
#[kani::proof]
#[kani::unwind(5)]
fn clip_status_all_outcodes() {
    let (a, b, c): (u8, u8, u8) = (kani::any(), kani::any(), kani::any());
    kani::assume(a < 64 && b < 64 && c < 64);
    let vs = [
        ClipVert { pos: ClipVec::new([0.0; 4]), attrib: (), outcode: a },
        ClipVert { pos: ClipVec::new([0.0; 4]), attrib: (), outcode: b },
        ClipVert { pos: ClipVec::new([0.0; 4]), attrib: (), outcode: c },
    ];
    let st = status(&vs);
    kani::cover!(matches!(st, Status::Clipped));
    match st {
        Status::Hidden => assert!(a & b & c != 0),
        Status::Visible => assert!(a | b | c == 0),
        Status::Clipped => assert!(a & b & c == 0 && a | b | c != 0),
    }
}

fn same_vert(a: &ClipVert<F>, b: &ClipVert<F>) -> bool {
    let eq = |x: F, y: F| x.to_bits() == y.to_bits();
    eq(a.pos.0[0], b.pos.0[0]) && eq(a.pos.0[1], b.pos.0[1]) && eq(a.pos.0[2], b.pos.0[2]) && eq(a.pos.0[3], b.pos.0[3])
        && eq(a.attrib, b.attrib) && a.outcode == b.outcode
}

// @ob props=C03 tier=quick kind=P cfg=core-std timeout=900
// @fn <[Tri<ClipVert<A>>] as Clip>::clip ; view_frustum::clip
// @clause a triangle wholly inside the frustum (all outcodes zero) is emitted unchanged, bit for bit, for every position and attribute payload
#[cfg(not(verif_skip_clip_visible_unchanged))]
#[kani::proof]
#[kani::unwind(5)]
fn clip_visible_unchanged() {
    let t = Tri([vert_oc(0), vert_oc(0), vert_oc(0)]);
    let keep = t.clone();
    let tris = [t];
    let mut out = alloc::vec::Vec::new();
    view_frustum::clip(&tris[..], &mut out);
    kani::cover!(true);
    assert!(out.len() == 1);
    let mut i = 0;
    while i < 3 {
        assert!(same_vert(&out[0].0[i], &keep.0[i]));
        i += 1;
    }
}

macro_rules! hidden_harness {
    ($name:ident, $bit:expr, $o1:expr, $o2:expr) => {
        #[kani::proof]
        #[kani::unwind(5)]
        fn $name() {
            // all three vertices outside plane $bit (plus other, differing planes): nothing may be emitted
            let tris = [Tri([vert_oc($bit | $o1), vert_oc($bit | $o2), vert_oc($bit)])];
            let mut out = alloc::vec::Vec::new();
            view_frustum::clip(&tris[..], &mut out);
            kani::cover!(true);
            assert!(out.is_empty());
        }
    };
}

// @ob props=C03 tier=quick kind=P cfg=core-std timeout=600
// @fn <[Tri<ClipVert<A>>] as Clip>::clip
// @clause a triangle wholly outside the near plane produces nothing (any payload)
hidden_harness!(clip_hidden_near, 1, 4, 32);
// @ob props=C03 tier=quick kind=P cfg=core-std timeout=600
// @fn <[Tri<ClipVert<A>>] as Clip>::clip
// @clause a triangle wholly outside the far plane produces nothing
hidden_harness!(clip_hidden_far, 2, 8, 16);
// @ob props=C03 tier=quick kind=P cfg=core-std timeout=600
// @fn <[Tri<ClipVert<A>>] as Clip>::clip
// @clause a triangle wholly outside the left plane produces nothing
hidden_harness!(clip_hidden_left, 4, 1, 32);
// @ob props=C03 tier=quick kind=P cfg=core-std timeout=600
// @fn <[Tri<ClipVert<A>>] as Clip>::clip
// @clause a triangle wholly outside the right plane produces nothing
hidden_harness!(clip_hidden_right, 8, 2, 16);
// @ob props=C03 tier=quick kind=P cfg=core-std timeout=600
// @fn <[Tri<ClipVert<A>>] as Clip>::clip
// @clause a triangle wholly outside the bottom plane produces nothing
hidden_harness!(clip_hidden_bottom, 16, 1, 8);
// @ob props=C03 tier=quick kind=P cfg=core-std timeout=600
// @fn <[Tri<ClipVert<A>>] as Clip>::clip
// @clause a triangle wholly outside the top plane produces nothing
hidden_harness!(clip_hidden_top, 32, 2, 4);

// @ob props=C03 tier=quick kind=P cfg=core-std timeout=900
// @fn <[Tri<ClipVert<A>>] as Clip>::clip
// @clause batch independence on the trivial paths: in a batch [visible, hidden, visible] exactly the two visible triangles are emitted, in order and unchanged, i.e. the result for a triangle does not depend on its neighbours in the call
#[cfg(not(verif_skip_clip_batch_trivial_paths))]
#[kani::proof]
#[kani::unwind(6)]
fn clip_batch_trivial_paths() {
    let (a, c) = (Tri([vert_oc(0), vert_oc(0), vert_oc(0)]), Tri([vert_oc(0), vert_oc(0), vert_oc(0)]));
    let b = Tri([vert_oc(2 | 4), vert_oc(2), vert_oc(2 | 32)]);
    let (ka, kc) = (a.clone(), c.clone());
    let tris = [a, b, c];
    let mut out = alloc::vec::Vec::new();
    view_frustum::clip(&tris[..], &mut out);
    kani::cover!(true);
    assert!(out.len() == 2);
    let mut i = 0;
    while i < 3 {
        assert!(same_vert(&out[0].0[i], &ka.0[i]) && same_vert(&out[1].0[i], &kc.0[i]));
        i += 1;
    }
}

// Tried and dropped (formulations 6-8 of the clip step, after the five of DESIGN.md 1): with fully CONCRETE clip-space geometry
// (so that every control decision is concrete) (6) batch independence [ghost, quad, ghost, corner] with () attributes: 30 min,
// 9 GB, no verdict; (7) the same with symbolic f32 attributes: timeout at 30 min; (8) a single plane, a single triangle,
// ClipPlane::clip_simple_polygon with symbolic attributes: CBMC aborts (status 6) after 5 min / "pointer to unallocated memory".
// The Vec-based polygon buffers are what CBMC cannot digest; the clipped path stays undecided.
// (9) after concrete-input harnesses turned out to decide inverse() and parse_obj: ONE concrete triangle covering the right/top
// corner, (0,0,0,1) (3,0,0,1) (0,3,0,1), with the concrete linear attribute 2x+10y-3z+5w, asserting two output triangles, every
// vertex inside the frustum and attribute = field(position) within 1e-3: no verdict in 40 min, 9 GB (timeout).  Even with all
// control constant the clip step stays out of reach; seed C03c (attribute interpolation skipped at frustum corners) is missed.
// (10) the same triangle and attribute, ONE plane: PLANES[3].clip_simple_polygon on a stack array (only the output is a Vec),
// asserting the quad (0,0) (1,0) (1,2) (0,3), kept vertices unchanged and attribute = field(position): CBMC aborts after 10 min
// ("CBMC failed", as in (8)).

include!("gen/dispatch_clip.rs");
