// Harness module for core/src/render/tex.rs (child of `render::tex`, cfg(kani) only).
// @module render::tex::verif_kani
#![allow(unused_imports)]
use super::*;
use crate::util::buf::{AsSlice2, Buf2, Slice2};
type F = core::primitive::f32;

/// Integer-domain floor, independent of the crate's float backends (|x| < 2^63).
fn ifloor(x: F) -> i64 {
    let t = x as i64;
    if (t as F) > x { t - 1 } else { t }
}

fn small(x: F) -> bool {
    x > -2147483648.0 && x < 2147483648.0
}

/// 4x4 buffer whose texels are their own coordinates.
fn coords4() -> Buf2<(u32, u32)> {
    Buf2::new_with((4, 4), |x, y| (x, y))
}

// @ob props=C12,C20 tier=quick kind=B cfg=core-std,core-none,core-mm,core-libm timeout=900
// @fn SamplerRepeatPot::new ; SamplerRepeatPot::sample_abs ; SamplerRepeatPot::sample
// @bound texture sizes: every power-of-two size in {1,2,4}x{1,2,4}, owned buffer; complete in the coordinates (all f32 pairs, NaN and infinities included)
// @clause the repeating sampler never panics for any coordinate and, for |u|,|v| < 2^31, returns the texel at (floor(u) mod w, floor(v) mod h); the relative entry point equals the absolute one at (w*u, h*v)
#[cfg(not(verif_skip_tex_repeat_pot_addressing))]
#[kani::proof]
#[kani::unwind(20)]
fn tex_repeat_pot_addressing() {
    let (lw, lh): (u32, u32) = (kani::any(), kani::any());
    kani::assume(lw <= 2 && lh <= 2);
    let (w, h) = (1u32 << lw, 1u32 << lh);
    let tex = Texture::from(Buf2::new_with((w, h), |x, y| (x, y)));
    let (u, v): (F, F) = (kani::any(), kani::any());
    let s = SamplerRepeatPot::new(&tex);
    let (x, y) = s.sample_abs(&tex, uv(u, v));
    kani::cover!(u < -1.0 && small(u) && w == 4);
    kani::cover!(u.is_nan());
    if small(u) && small(v) {
        assert!(x as i64 == ifloor(u).rem_euclid(w as i64));
        assert!(y as i64 == ifloor(v).rem_euclid(h as i64));
    }
    assert!(x < w && y < h);
    let rel = s.sample(&tex, uv(u, v));
    let abs = s.sample_abs(&tex, uv(w as F * u, h as F * v));
    assert!(rel == abs);
}

// @ob props=C12 tier=quick kind=P cfg=core-std timeout=300
// @fn SamplerRepeatPot::new
// @clause the repeating sampler's constructor rejects every texture whose width or height is not a power of two (sizes up to 4x4 enumerated symbolically via a borrowed sub-region)
// @allow_panic SamplerRepeatPot::new.*: (This is a placeholder message|.*must be 2)
#[cfg(not(verif_skip_tex_repeat_pot_rejects_non_pot))]
#[kani::proof]
#[kani::unwind(20)]
fn tex_repeat_pot_rejects_non_pot() {
    let buf = coords4();
    let (w, h): (u32, u32) = (kani::any(), kani::any());
    kani::assume(w >= 1 && w <= 4 && h >= 1 && h <= 4);
    kani::assume(!w.is_power_of_two() || !h.is_power_of_two());
    let tex = Texture::from(buf.slice((0..w, 0..h)));
    kani::cover!(true);
    let _ = SamplerRepeatPot::new(&tex);
    panic!("VERIF: SamplerRepeatPot::new accepted a non-power-of-two size");
}

// @ob props=C12,C20 tier=quick kind=B cfg=core-std,core-mm,core-libm timeout=900
// @fn SamplerClamp::sample_abs ; SamplerClamp::sample ; SamplerOnce::sample_abs ; SamplerOnce::sample ; Texture::from
// @bound texture sizes: every size 1..4 x 1..4 as a borrowed sub-region at every offset of a 4x4 buffer; complete in the coordinates (all f32 pairs)
// @clause the clamping sampler never panics for any coordinate (NaN, infinities included) and returns the texel at floor(clamp(c, 0, size-1)); for in-range coordinates the unchecked sampler agrees with it; relative entry points equal the absolute ones at (w*u, h*v)
#[cfg(feature = "fp")]
#[cfg(not(verif_skip_tex_clamp_once_addressing))]
#[kani::proof]
#[kani::unwind(20)]
fn tex_clamp_once_addressing() {
    let buf = coords4();
    let (x0, y0, w, h): (u32, u32, u32, u32) = (kani::any(), kani::any(), kani::any(), kani::any());
    kani::assume(w >= 1 && h >= 1 && x0 <= 3 && y0 <= 3 && w <= 4 - x0 && h <= 4 - y0);
    let tex = Texture::from(buf.slice((x0..x0 + w, y0..y0 + h)));
    assert!(tex.width() == w as F && tex.height() == h as F);
    let (u, v): (F, F) = (kani::any(), kani::any());
    let (cx, cy) = SamplerClamp.sample_abs(&tex, uv(u, v));
    kani::cover!(u.is_nan());
    kani::cover!(u > 1.0 && u < 2.0 && w == 3 && x0 == 1);
    // clamp in the integer domain: NaN -> 0 (cast), below 0 -> 0, above size-1 -> size-1
    let want = |c: F, n: u32| -> u32 {
        if c.is_nan() || c <= 0.0 { 0 } else if c >= (n - 1) as F { n - 1 } else { ifloor(c) as u32 }
    };
    assert!(cx == x0 + want(u, w) && cy == y0 + want(v, h));
    let rel = SamplerClamp.sample(&tex, uv(u, v));
    let abs = SamplerClamp.sample_abs(&tex, uv(u * w as F, v * h as F));
    assert!(rel == abs);
    if u >= 0.0 && u < w as F && v >= 0.0 && v < h as F {
        let o = SamplerOnce.sample_abs(&tex, uv(u, v));
        assert!(o == (cx, cy));
    }
    // relative entry point of the unchecked sampler, when its scaled coordinate is in range
    let (su, sv) = (w as F * u, h as F * v);
    if su >= 0.0 && su < w as F && sv >= 0.0 && sv < h as F {
        assert!(SamplerOnce.sample(&tex, uv(u, v)) == SamplerOnce.sample_abs(&tex, uv(su, sv)));
    }
}

// @ob props=C12 tier=quick kind=B cfg=core-std,core-none timeout=900
// @fn SamplerRepeatPot::sample_abs ; SamplerOnce::sample_abs
// @bound texture sizes: power-of-two sizes {1,2,4}^2 as a borrowed sub-region at every aligned offset of a 4x4 buffer; complete in the coordinates
// @clause on borrowed sub-region textures the repeating sampler addresses relative to the region (never outside it), and agrees with the unchecked sampler for in-range coordinates
#[cfg(not(verif_skip_tex_repeat_pot_subregion))]
#[kani::proof]
#[kani::unwind(20)]
fn tex_repeat_pot_subregion() {
    let buf = coords4();
    let (x0, y0, lw, lh): (u32, u32, u32, u32) = (kani::any(), kani::any(), kani::any(), kani::any());
    kani::assume(lw <= 2 && lh <= 2);
    let (w, h) = (1u32 << lw, 1u32 << lh);
    kani::assume(x0 <= 3 && y0 <= 3 && w <= 4 - x0 && h <= 4 - y0);
    let tex = Texture::from(buf.slice((x0..x0 + w, y0..y0 + h)));
    let (u, v): (F, F) = (kani::any(), kani::any());
    let s = SamplerRepeatPot::new(&tex);
    let (x, y) = s.sample_abs(&tex, uv(u, v));
    kani::cover!(x0 == 2 && w == 2 && u < 0.0);
    assert!(x >= x0 && x < x0 + w && y >= y0 && y < y0 + h);
    if small(u) && small(v) {
        assert!((x - x0) as i64 == ifloor(u).rem_euclid(w as i64) && (y - y0) as i64 == ifloor(v).rem_euclid(h as i64));
    }
    if u >= 0.0 && u < w as F && v >= 0.0 && v < h as F {
        assert!(SamplerOnce.sample_abs(&tex, uv(u, v)) == (x, y));
    }
}

// @ob props=C12,C20 tier=quick kind=B cfg=core-none timeout=900
// @fn SamplerRepeatPot::sample_abs
// @bound texture sizes {1,2,4}^2, owned buffer; complete in the coordinates
// @clause modular, no-fp build: against the CONTRACT of fallback::floor alone (its body replaced by the contract: exact floor for |x| < 2^63), the repeating sampler returns the texel at floor(c) mod size for |c| < 2^31 and stays in bounds for every coordinate
#[cfg(not(feature = "fp"))]
#[cfg(not(verif_skip_tex_repeat_pot_modular_floor))]
#[kani::proof]
#[kani::stub_verified(crate::math::float::fallback::floor)]
#[kani::unwind(20)]
fn tex_repeat_pot_modular_floor() {
    let (lw, lh): (u32, u32) = (kani::any(), kani::any());
    kani::assume(lw <= 2 && lh <= 2);
    let (w, h) = (1u32 << lw, 1u32 << lh);
    let tex = Texture::from(Buf2::new_with((w, h), |x, y| (x, y)));
    let (u, v): (F, F) = (kani::any(), kani::any());
    let s = SamplerRepeatPot::new(&tex);
    let (x, y) = s.sample_abs(&tex, uv(u, v));
    kani::cover!(u < -1.0 && small(u) && w == 4);
    assert!(x < w && y < h);
    if small(u) && small(v) {
        assert!(x as i64 == ifloor(u).rem_euclid(w as i64) && y as i64 == ifloor(v).rem_euclid(h as i64));
    }
}

// Tried and dropped: "never out of bounds for EVERY texture size" with zero-sized texels (a symbolic w x h view needs no storage):
// the symbolic products w*h and y*stride+x made CBMC run for 18 min without a verdict in both configurations. For all sizes the
// argument is instead modular: (1) Verus: to_index_checked accepts exactly x < w, y < h for all u32 geometries (buf unit);
// (2) Verus lemma lemma_pot_mask_in_range (tex unit): x & (w-1) < w for every power-of-two w; (3) the bounded Kani obligations above.

include!("gen/dispatch_tex.rs");
