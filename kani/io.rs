// Harness module for geom/src/io.rs (child of `retrofire_geom::io`, cfg(kani) only).
// @module io::verif_kani
//
// parse_obj over symbolic text is out of CBMC's reach (DESIGN.md C14): the claim is the index arithmetic, complete for short
// strings, plus parse_obj itself on a few concrete texts (bounded stand-ins).
#![allow(unused_imports)]
use super::*;

/// the decimal value of an all-digit ASCII string of at most 3 bytes, else None
fn small_decimal(b: &[u8]) -> Option<usize> {
    if b.is_empty() {
        return None;
    }
    let mut v = 0usize;
    let mut i = 0;
    while i < b.len() {
        if !(b[i] >= b'0' && b[i] <= b'9') {
            return None;
        }
        v = v * 10 + (b[i] - b'0') as usize;
        i += 1;
    }
    Some(v)
}

fn any_ascii<const N: usize>() -> ([u8; N], usize) {
    let bytes: [u8; N] = kani::any();
    let len: usize = kani::any();
    kani::assume(len <= N);
    let mut i = 0;
    while i < N {
        kani::assume(bytes[i] < 128); // ASCII: every byte string of these is valid UTF-8
        i += 1;
    }
    (bytes, len)
}

// @ob props=C14 tier=quick kind=B cfg=geom-std timeout=1800
// @fn parse_index
// @bound all ASCII strings of at most 3 bytes (the real str::parse::<usize> is executed)
// @clause the one-based to zero-based index conversion never panics: for the decimal n >= 1 it returns n - 1, and for "0", the empty string, signs other than a leading '+', and any non-digit it returns an error (or, for "+n", n - 1)
#[cfg(not(verif_skip_io_parse_index_total))]
#[kani::proof]
#[kani::unwind(6)]
fn io_parse_index_total() {
    let (bytes, len) = any_ascii::<3>();
    let s = core::str::from_utf8(&bytes[..len]).unwrap();
    let r = parse_index(s);
    kani::cover!(r.is_ok());
    kani::cover!(len == 1 && bytes[0] == b'0');
    match small_decimal(&bytes[..len]) {
        Some(n) if n >= 1 => assert!(matches!(r, Ok(i) if i == n - 1)),
        Some(_) => assert!(r.is_err()),
        None => {
            if let Ok(i) = r {
                // the only other accepted spelling is a leading '+'
                assert!(len >= 2 && bytes[0] == b'+' && small_decimal(&bytes[1..len]) == Some(i + 1));
            }
        }
    }
}

// @ob props=C14 tier=thorough kind=B cfg=geom-std timeout=5400
// @fn parse_indices ; parse_index
// @bound all ASCII strings of at most 5 bytes
// @clause the v, v/vt, v//vn and v/vt/vn index forms never panic and put position, texcoord and normal into the right slots, each converted from one-based to zero-based; a missing position, an index 0 or trailing garbage is an error
#[cfg(not(verif_skip_io_parse_indices_forms))]
#[kani::proof]
#[kani::unwind(8)]
fn io_parse_indices_forms() {
    let (bytes, len) = any_ascii::<5>();
    let s = core::str::from_utf8(&bytes[..len]).unwrap();
    let r = parse_indices(s);
    kani::cover!(matches!(r, Ok(Indices { uv: None, n: Some(_), .. })));
    kani::cover!(matches!(r, Ok(Indices { uv: Some(_), n: Some(_), .. })));
    // split at '/' by hand
    let mut cut = [len; 3];
    let mut k = 0;
    let mut i = 0;
    while i < len {
        if bytes[i] == b'/' && k < 3 {
            cut[k] = i;
            k += 1;
        }
        i += 1;
    }
    if let Ok(ix) = r {
        let one = |lo: usize, hi: usize| -> Option<usize> {
            let b = &bytes[lo..hi];
            let b = if b.len() >= 2 && b[0] == b'+' { &b[1..] } else { b };
            small_decimal(b).and_then(|n| n.checked_sub(1))
        };
        assert!(Some(ix.pos) == one(0, cut[0]));
        match k {
            0 => assert!(ix.uv.is_none() && ix.n.is_none()),
            1 => assert!(ix.n.is_none() && (if cut[0] + 1 == len { ix.uv.is_none() } else { ix.uv == one(cut[0] + 1, len) })),
            _ => {
                assert!(if cut[0] + 1 == cut[1] { ix.uv.is_none() } else { ix.uv == one(cut[0] + 1, cut[1]) });
                assert!(ix.n == one(cut[1] + 1, cut[2]));
            }
        }
    }
}

// Tried and dropped: parse_obj on the inputs "f a b c" (three symbolic digits, no vertex line) -- 21 min and 6.7 GB without
// a verdict; whole-parser obligations over SYMBOLIC text stay out of reach (DESIGN.md C14).  On CONCRETE text every control
// decision of the parser is constant, and CBMC decides parse_obj in 15 s to 5 min: the obligations below are bounded stand-ins
// on single concrete inputs (kind B, never counted as proved), chosen to exercise the deferred bounds check, the index forms,
// the layout clauses and the faithful reproduction of the face list.
// Tried and dropped (one step up from concrete): "v 0 0 0 / v 1 0 0 / v 0 1 0 / f 1 2 X" with ONE symbolic byte X, asserting
// Ok iff X in '1'..'3' and then face [0, 1, X - '1']: no verdict in 60 min.  Retried with the smallest text and bound ("v 0 0 0 / f 1 1 X",
// unwinding 12): X over all 256 bytes -- no verdict in 50 min; X over the ten digits only -- no verdict in 40 min.  The unwinding bounds below are the smallest that
// cover each text (longest line + 2): under a mutation that makes a loop bound non-constant for CBMC (e.g. a filter() before
// Mesh::new's collect()) the cost grows with the unwinding bound, and with 40 the seeded change C14c ended undecided.

// @ob props=C14 tier=quick kind=B cfg=geom-std timeout=2400
// @fn parse_obj ; parse_face ; parse_indices ; Mesh::new
// @bound one concrete input: the single line "f 1 2 3" (a face, no vertex line at all)
// @clause faces with no vertices defined: parse_obj does not panic (the deferred bounds check must not be skipped when the vertex list is empty, or Mesh::new's index assertion fires) and returns an error
#[cfg(not(verif_skip_io_parse_obj_face_without_vertices))]
#[kani::proof]
#[kani::unwind(12)]
fn io_parse_obj_face_without_vertices() {
    let r = parse_obj(*b"f 1 2 3\n");
    kani::cover!(true);
    assert!(r.is_err());
}

fn face_is(m: &Mesh<()>, k: usize, f: [usize; 3]) -> bool {
    m.faces[k].0[0] == f[0] && m.faces[k].0[1] == f[1] && m.faces[k].0[2] == f[2]
}
fn vert_is(m: &Mesh<()>, k: usize, p: [f32; 3]) -> bool {
    let q = &m.verts[k].pos;
    q.x() == p[0] && q.y() == p[1] && q.z() == p[2]
}

// @ob props=C14 tier=quick kind=B cfg=geom-std timeout=2400
// @fn parse_obj ; parse_face ; parse_indices ; parse_index ; Mesh::new ; Builder::build
// @bound one concrete 9-line text: a comment, a blank line, an indented line, faces before and after the vertices they use, the four index forms v, v/vt, v//vn, v/vt/vn, a face naming one vertex twice; integer coordinates
// @clause for well-formed input the result has exactly the listed triangles, in file order, with one-based indices converted to zero-based (a face that names a vertex twice included), irrespective of comments, blank lines, indentation, index form and face/vertex order; exactly the listed vertices in file order; build() succeeds
#[cfg(not(verif_skip_io_parse_obj_small_mesh_faithful))]
#[kani::proof]
#[kani::unwind(24)]
fn io_parse_obj_small_mesh_faithful() {
    let src = *b"# m\n\nf 1 2 3\nv 0 0 0\n  v 1 0 0\nv 0 2 0\nvt 0 0\nvn 0 0 1\nf 2/1 3/1 3/1\nf 3//1 1//1 2//1\nf 1/1/1 3/1/1 2/1/1\n";
    let r = parse_obj(src);
    kani::cover!(true);
    assert!(r.is_ok());
    if let Ok(b) = r {
        let m = b.build();
        assert!(m.faces.len() == 4 && m.verts.len() == 3);
        assert!(face_is(&m, 0, [0, 1, 2]) && face_is(&m, 1, [1, 2, 2]) && face_is(&m, 2, [2, 0, 1]) && face_is(&m, 3, [0, 2, 1]));
        assert!(vert_is(&m, 0, [0.0, 0.0, 0.0]) && vert_is(&m, 1, [1.0, 0.0, 0.0]) && vert_is(&m, 2, [0.0, 2.0, 0.0]));
    }
}

// @ob props=C14 tier=quick kind=B cfg=geom-std timeout=2400
// @fn parse_obj ; parse_face ; Mesh::new
// @bound one concrete text: one vertex, a first face with the out-of-range index 5, a second face that is in range
// @clause an out-of-range index in ANY face (not only the last) makes parse_obj return IndexOutOfBounds with that zero-based index instead of a builder whose build() would panic
#[cfg(not(verif_skip_io_parse_obj_oob_in_earlier_face))]
#[kani::proof]
#[kani::unwind(12)]
fn io_parse_obj_oob_in_earlier_face() {
    let r = parse_obj(*b"v 0 0 0\nf 1 1 5\nf 1 1 1\n");
    kani::cover!(true);
    assert!(matches!(r, Err(Error::IndexOutOfBounds("vertex", 4))));
}

// @ob props=C14 tier=quick kind=B cfg=geom-std timeout=2400
// @fn parse_obj ; parse_normal ; parse_vector
// @bound one concrete text: one vertex, the zero normal "vn 0 0 0", one face using both
// @clause a zero-length normal is data, not an error: parse_obj neither panics nor rejects it (normals are parsed but not returned)
#[cfg(not(verif_skip_io_parse_obj_zero_normal))]
#[kani::proof]
#[kani::unwind(20)]
fn io_parse_obj_zero_normal() {
    let r = parse_obj(*b"v 0 0 0\nvn 0 0 0\nf 1//1 1//1 1//1\n");
    kani::cover!(true);
    assert!(r.is_ok());
    if let Ok(b) = r {
        assert!(b.mesh.faces.len() == 1 && b.mesh.verts.len() == 1);
    }
}

// @ob props=C14 tier=quick kind=B cfg=geom-std timeout=1200
// @fn parse_obj ; parse_face ; Mesh::new
// @bound one concrete two-line text: one vertex and the face "f 1 1 1" (unwinding bound 10: no line is longer than 8 bytes)
// @clause exactly the listed triangles: a face that names the same vertex three times is kept as [0, 0, 0] (zero area is not an error and not a reason to drop it)
#[cfg(not(verif_skip_io_parse_obj_degenerate_face_kept))]
#[kani::proof]
#[kani::unwind(10)]
fn io_parse_obj_degenerate_face_kept() {
    let r = parse_obj(*b"v 0 0 0\nf 1 1 1\n");
    kani::cover!(true);
    assert!(r.is_ok());
    if let Ok(b) = r {
        assert!(b.mesh.faces.len() == 1 && b.mesh.verts.len() == 1 && face_is(&b.mesh, 0, [0, 0, 0]));
    }
}

// @ob props=C14 tier=quick kind=B cfg=geom-std timeout=2400
// @fn parse_obj ; parse_point ; parse_vector
// @bound one concrete two-line text with six coordinates in plain, signed, leading-dot and exponent notation
// @clause the listed vertex positions come out in file order with the written coordinates, plain or exponent notation: "1.5 -22.5e0 1e-3" and ".5 +2 -0.25E1" parse to exactly the f32 values 1.5, -22.5, 0.001 and 0.5, 2, -2.5 (the real str::parse::<f32> is executed)
#[cfg(not(verif_skip_io_parse_obj_coordinate_notation))]
#[kani::proof]
#[kani::unwind(22)]
fn io_parse_obj_coordinate_notation() {
    let r = parse_obj(*b"v 1.5 -22.5e0 1e-3\nv .5 +2 -0.25E1\n");
    kani::cover!(true);
    assert!(r.is_ok());
    if let Ok(b) = r {
        let m = b.build();
        assert!(m.faces.len() == 0 && m.verts.len() == 2);
        assert!(vert_is(&m, 0, [1.5, -22.5, 0.001]) && vert_is(&m, 1, [0.5, 2.0, -2.5]));
    }
}

include!("gen/dispatch_io.rs");
