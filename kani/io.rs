// Harness module for geom/src/io.rs (child of `retrofire_geom::io`, cfg(kani) only).
// @module io::verif_kani
//
// parse_obj as a whole is out of CBMC's reach (DESIGN.md C14): the claim is the index arithmetic.
#![allow(unused_imports)]
use super::*;

/// the decimal value of an all-digit ASCII string of at most 3 bytes, else None
fn small_decimal(b: &[u8]) -> Option<usize> {
    if b.is_empty() {
        return None;
    }
    let mut v = 0usize;
    let mut i = 0;
    while i < b.len() {
        if !(b[i] >= b'0' && b[i] <= b'9') {
            return None;
        }
        v = v * 10 + (b[i] - b'0') as usize;
        i += 1;
    }
    Some(v)
}

fn any_ascii<const N: usize>() -> ([u8; N], usize) {
    let bytes: [u8; N] = kani::any();
    let len: usize = kani::any();
    kani::assume(len <= N);
    let mut i = 0;
    while i < N {
        kani::assume(bytes[i] < 128); // ASCII: every byte string of these is valid UTF-8
        i += 1;
    }
    (bytes, len)
}

// @ob props=C14 tier=quick kind=B cfg=geom-std timeout=1800
// @fn parse_index
// @bound all ASCII strings of at most 3 bytes (the real str::parse::<usize> is executed)
// @clause the one-based to zero-based index conversion never panics: for the decimal n >= 1 it returns n - 1, and for "0", the empty string, signs other than a leading '+', and any non-digit it returns an error (or, for "+n", n - 1)
#[cfg(not(verif_skip_io_parse_index_total))]
#[kani::proof]
#[kani::unwind(6)]
fn io_parse_index_total() {
    let (bytes, len) = any_ascii::<3>();
    let s = core::str::from_utf8(&bytes[..len]).unwrap();
    let r = parse_index(s);
    kani::cover!(r.is_ok());
    kani::cover!(len == 1 && bytes[0] == b'0');
    match small_decimal(&bytes[..len]) {
        Some(n) if n >= 1 => assert!(matches!(r, Ok(i) if i == n - 1)),
        Some(_) => assert!(r.is_err()),
        None => {
            if let Ok(i) = r {
                // the only other accepted spelling is a leading '+'
                assert!(len >= 2 && bytes[0] == b'+' && small_decimal(&bytes[1..len]) == Some(i + 1));
            }
        }
    }
}

// @ob props=C14 tier=thorough kind=B cfg=geom-std timeout=5400
// @fn parse_indices ; parse_index
// @bound all ASCII strings of at most 5 bytes
// @clause the v, v/vt, v//vn and v/vt/vn index forms never panic and put position, texcoord and normal into the right slots, each converted from one-based to zero-based; a missing position, an index 0 or trailing garbage is an error
#[cfg(not(verif_skip_io_parse_indices_forms))]
#[kani::proof]
#[kani::unwind(8)]
fn io_parse_indices_forms() {
    let (bytes, len) = any_ascii::<5>();
    let s = core::str::from_utf8(&bytes[..len]).unwrap();
    let r = parse_indices(s);
    kani::cover!(matches!(r, Ok(Indices { uv: None, n: Some(_), .. })));
    kani::cover!(matches!(r, Ok(Indices { uv: Some(_), n: Some(_), .. })));
    // split at '/' by hand
    let mut cut = [len; 3];
    let mut k = 0;
    let mut i = 0;
    while i < len {
        if bytes[i] == b'/' && k < 3 {
            cut[k] = i;
            k += 1;
        }
        i += 1;
    }
    if let Ok(ix) = r {
        let one = |lo: usize, hi: usize| -> Option<usize> {
            let b = &bytes[lo..hi];
            let b = if b.len() >= 2 && b[0] == b'+' { &b[1..] } else { b };
            small_decimal(b).and_then(|n| n.checked_sub(1))
        };
        assert!(Some(ix.pos) == one(0, cut[0]));
        match k {
            0 => assert!(ix.uv.is_none() && ix.n.is_none()),
            1 => assert!(ix.n.is_none() && (if cut[0] + 1 == len { ix.uv.is_none() } else { ix.uv == one(cut[0] + 1, len) })),
            _ => {
                assert!(if cut[0] + 1 == cut[1] { ix.uv.is_none() } else { ix.uv == one(cut[0] + 1, cut[1]) });
                assert!(ix.n == one(cut[1] + 1, cut[2]));
            }
        }
    }
}

// Tried and dropped: parse_obj on the inputs "f a b c" (three symbolic digits, no vertex line) -- 21 min and 6.7 GB without
// a verdict; the whole-parser obligations stay out of reach (DESIGN.md C14).

include!("gen/dispatch_io.rs");
