// Harness module for core/src/math/rand.rs (child of `math::rand`, cfg(kani) only).
// @module math::rand::verif_kani
// Metadata lines (`// @ob`, `// @fn`, `// @clause`, `// @bound`) are read by /verif/bin/check.
use super::*;

/// State precondition of `Xorshift64::next_bits`: a non-zero seed.
pub(crate) fn any_rng() -> Xorshift64 {
    let s: u64 = kani::any();
    kani::assume(s != 0);
    Xorshift64(s)
}

fn any_finite() -> f32 {
    let x: f32 = kani::any();
    kani::assume(x.is_finite());
    x
}

// @ob props=C19 tier=quick kind=P cfg=core-std timeout=120
// @fn Xorshift64::next_bits
// @clause contract of next_bits: non-zero state stays non-zero, the returned value is the new state, only self.0 is modified
#[cfg(not(verif_skip_rand_next_bits_contract))]
#[kani::proof_for_contract(Xorshift64::next_bits)]
fn rand_next_bits_contract() {
    let mut g = Xorshift64(kani::any());
    let r = g.next_bits();
    // the postcondition again, explicitly: contracts are not checked under native replay
    assert!(r != 0 && g.0 == r);
}

// @ob props=C19 tier=quick kind=P cfg=core-std timeout=120
// @fn Xorshift64::from_seed
// @clause contract of from_seed (in place): a non-zero seed becomes the generator state unchanged (so equal seeds give equal states); its precondition seed != 0 is asserted at every call site
#[cfg(not(verif_skip_rand_from_seed_contract))]
#[kani::proof_for_contract(Xorshift64::from_seed)]
fn rand_from_seed_contract() {
    let s: u64 = kani::any();
    let g = Xorshift64::from_seed(s);
    assert!(g.0 == s); // explicit, for native replay
}

// @ob props=C19 tier=quick kind=P cfg=core-std timeout=120
// @fn Xorshift64::next_bits
// @clause the step function is injective on all 2^64 states, hence (with the contract) a bijection of the non-zero states
#[cfg(not(verif_skip_rand_step_injective))]
#[kani::proof]
fn rand_step_injective() {
    let (a, b) = (any_rng(), any_rng());
    kani::assume(a.0 != b.0);
    let (mut a, mut b) = (a, b);
    let (ra, rb) = (a.next_bits(), b.next_bits());
    kani::cover!(true);
    assert!(ra != rb && a.0 != b.0);
}

// @ob props=C19 tier=quick kind=P cfg=core-std timeout=120 role=premise
// @fn Xorshift64::next_bits
// @clause premise of the period lemma: the step is GF(2)-linear, step(a^b) = step(a)^step(b)
#[cfg(not(verif_skip_rand_step_linear))]
#[kani::proof]
fn rand_step_linear() {
    let (a, b) = (any_rng(), any_rng());
    kani::assume(a.0 != b.0);
    let mut c = Xorshift64(a.0 ^ b.0);
    let (mut a, mut b) = (a, b);
    kani::cover!(true);
    assert!(a.next_bits() ^ b.next_bits() == c.next_bits());
}

// @ob props=C19 tier=quick kind=P cfg=core-std timeout=120
// @fn Xorshift64::next_bits Xorshift64::from_seed
// @clause equal seeds yield equal sequences: output and successor state are functions of the state alone (induction step)
#[cfg(not(verif_skip_rand_equal_seeds))]
#[kani::proof]
fn rand_equal_seeds() {
    let s: u64 = kani::any();
    kani::assume(s != 0);
    let (mut a, mut b) = (Xorshift64::from_seed(s), Xorshift64::from_seed(s));
    kani::cover!(true);
    assert!(a.0 == s && b.0 == s);
    assert!(a.next_bits() == b.next_bits() && a.0 == b.0);
    assert!(a.next_bits() == b.next_bits() && a.0 == b.0);
}

// @ob props=C19 tier=quick kind=P cfg=core-std timeout=300
// @fn <Uniform<f32> as Distrib>::sample
// @clause for every state and every finite range start<end of finite width the float sample lies in [start, end)
#[cfg(not(verif_skip_rand_uniform_f32_in_range))]
#[kani::proof]
fn rand_uniform_f32_in_range() {
    let mut g = any_rng();
    let (start, end) = (any_finite(), any_finite());
    kani::assume(start < end && (end - start).is_finite());
    let r = Uniform(start..end).sample(&mut g);
    kani::cover!(true);
    assert!(start <= r);
    assert!(r < end);
}

// @ob props=C19 tier=quick kind=P cfg=core-std timeout=300
// @fn <Uniform<i32> as Distrib>::sample
// @clause for every state the integer sample lies in [start, end) whenever the width end-start is positive and representable
#[cfg(not(verif_skip_rand_uniform_i32_in_range))]
#[kani::proof]
fn rand_uniform_i32_in_range() {
    let mut g = any_rng();
    let (start, end): (i32, i32) = (kani::any(), kani::any());
    kani::assume(start < end && end.checked_sub(start).is_some());
    let r = Uniform(start..end).sample(&mut g);
    kani::cover!(true);
    assert!(start <= r && r < end);
}

// @ob props=C19 tier=quick kind=P cfg=core-std timeout=120
// @fn <Bernoulli as Distrib>::sample
// @clause Bernoulli(p<=0) is false and Bernoulli(p>=1) is true for every state
#[cfg(not(verif_skip_rand_bernoulli_extremes))]
#[kani::proof]
fn rand_bernoulli_extremes() {
    let mut g = any_rng();
    let p: f32 = kani::any();
    kani::assume(!p.is_nan());
    let b = Bernoulli(p).sample(&mut g);
    kani::cover!(p <= 0.0);
    kani::cover!(p >= 1.0);
    if p <= 0.0 {
        assert!(!b);
    }
    if p >= 1.0 {
        assert!(b);
    }
}

// @ob props=C19 tier=quick kind=P cfg=core-std timeout=120
// @fn <Bernoulli as Distrib>::sample
// @clause modular variant: Bernoulli extremes hold against next_bits' contract alone (callee body replaced by its contract)
#[cfg(not(verif_skip_rand_bernoulli_extremes_modular))]
#[kani::proof]
#[kani::stub_verified(Xorshift64::next_bits)]
fn rand_bernoulli_extremes_modular() {
    let mut g = any_rng();
    let p: f32 = kani::any();
    kani::assume(!p.is_nan());
    let b = Bernoulli(p).sample(&mut g);
    kani::cover!(p <= 0.0);
    kani::cover!(p >= 1.0);
    if p <= 0.0 {
        assert!(!b);
    }
    if p >= 1.0 {
        assert!(b);
    }
}

/// A harness-defined component type: its scalar distribution consumes exactly one draw and
/// mixes the draw with both bounds, so that any reordering, skipped or repeated draw, or
/// mixed-up bound in the *generic* array/vector/point/tuple impls changes the result.
#[derive(Copy, Clone, PartialEq, Eq, Debug)]
pub(crate) struct Tok(u64);
impl Distrib for Uniform<Tok> {
    type Sample = Tok;
    fn sample(&self, rng: &mut DefaultRng) -> Tok {
        Tok(rng.next_bits() ^ self.0.start.0.rotate_left(1) ^ self.0.end.0.rotate_left(2))
    }
}
fn tok_seq<const N: usize>(g0: Xorshift64, s: [Tok; N], e: [Tok; N]) -> ([Tok; N], u64) {
    let mut h = g0;
    let mut out = s;
    let mut i = 0;
    while i < N {
        out[i] = Uniform(s[i]..e[i]).sample(&mut h);
        i += 1;
    }
    (out, h.0)
}
fn any_toks<const N: usize>() -> [Tok; N] {
    let a: [u64; N] = kani::any();
    a.map(Tok)
}

// @ob props=C19 tier=quick kind=P cfg=core-std timeout=300
// @fn <Uniform<[T;N]> as Distrib>::sample ; <Uniform<Vector> as Distrib>::sample ; <Uniform<Point> as Distrib>::sample ; <(D,E) as Distrib>::sample
// @clause the generic array, vector, point and tuple distributions draw their components sequentially in index order with the matching bounds and leave the same final state (instantiated at a harness-defined component type; the impls are parametric in the component type)
#[cfg(not(verif_skip_rand_components_in_order_generic))]
#[kani::proof]
#[kani::unwind(5)]
fn rand_components_in_order_generic() {
    let g0 = any_rng();
    let (s, e): ([Tok; 3], [Tok; 3]) = (any_toks(), any_toks());
    let (r, h) = tok_seq(g0, s, e);
    let (r2, h2) = tok_seq(g0, [s[0], s[1]], [e[0], e[1]]);
    kani::cover!(true);
    let mut g = g0;
    let a = Uniform(s..e).sample(&mut g);
    assert!(a == r && g.0 == h);
    let mut g = g0;
    let v = Uniform(Vector::<_, ()>::new(s)..Vector::new(e)).sample(&mut g);
    assert!(v.0 == r && g.0 == h);
    let mut g = g0;
    let p = Uniform(Point::<_, ()>::new([s[0], s[1]])..Point::new([e[0], e[1]])).sample(&mut g);
    assert!(p.0 == r2 && g.0 == h2);
    let mut g = g0;
    let t = (Uniform(s[0]..e[0]), Uniform(s[1]..e[1])).sample(&mut g);
    assert!(t.0 == r2[0] && t.1 == r2[1] && g.0 == h2);
    let mut g = g0;
    let t = ((Uniform(s[0]..e[0]), Uniform([s[1], s[2]]..[e[1], e[2]])), Uniform(s[0]..e[1])).sample(&mut g);
    let mut k = Xorshift64(h);
    let last = Uniform(s[0]..e[1]).sample(&mut k);
    assert!(t.0 .0 == r[0] && t.0 .1 == [r[1], r[2]] && t.1 == last && g.0 == k.0);
}

fn eqb(a: f32, b: f32) -> bool {
    a.to_bits() == b.to_bits()
}

/// Reference: two sequential scalar draws; returns (r0, r1, final state).
fn seq2(g0: Xorshift64, s: [f32; 2], e: [f32; 2]) -> (f32, f32, u64) {
    let mut h = g0;
    let r0 = Uniform(s[0]..e[0]).sample(&mut h);
    let r1 = Uniform(s[1]..e[1]).sample(&mut h);
    (r0, r1, h.0)
}

// @ob props=C19 tier=thorough kind=P cfg=core-std timeout=3000
// @fn <Uniform<[T;N]> as Distrib>::sample
// @clause the array distribution draws its components sequentially in index order and leaves the same final state (f32 components, any bounds)
#[cfg(not(verif_skip_rand_array_in_order_f32))]
#[kani::proof]
#[kani::unwind(4)]
fn rand_array_in_order_f32() {
    let g0 = any_rng();
    let (s, e): ([f32; 2], [f32; 2]) = (kani::any(), kani::any());
    let (r0, r1, h) = seq2(g0, s, e);
    let mut g = g0;
    let a = Uniform([s[0], s[1]]..[e[0], e[1]]).sample(&mut g);
    kani::cover!(true);
    assert!(eqb(a[0], r0) && eqb(a[1], r1) && g.0 == h);
}

// @ob props=C19 tier=thorough kind=P cfg=core-std timeout=3000
// @fn <Uniform<Vector> as Distrib>::sample
// @clause the vector distribution draws x then y and leaves the same final state
#[cfg(not(verif_skip_rand_vector_in_order_f32))]
#[kani::proof]
#[kani::unwind(4)]
fn rand_vector_in_order_f32() {
    let g0 = any_rng();
    let (s, e): ([f32; 2], [f32; 2]) = (kani::any(), kani::any());
    let (r0, r1, h) = seq2(g0, s, e);
    let mut g = g0;
    let v = Uniform(crate::math::vec2::<f32, ()>(s[0], s[1])..crate::math::vec2(e[0], e[1])).sample(&mut g);
    kani::cover!(true);
    assert!(eqb(v.x(), r0) && eqb(v.y(), r1) && g.0 == h);
}

// @ob props=C19 tier=thorough kind=P cfg=core-std timeout=3000
// @fn <Uniform<Point> as Distrib>::sample
// @clause the point distribution draws x then y and leaves the same final state
#[cfg(not(verif_skip_rand_point_in_order_f32))]
#[kani::proof]
#[kani::unwind(4)]
fn rand_point_in_order_f32() {
    let g0 = any_rng();
    let (s, e): ([f32; 2], [f32; 2]) = (kani::any(), kani::any());
    let (r0, r1, h) = seq2(g0, s, e);
    let mut g = g0;
    let p = Uniform(crate::math::pt2::<f32, ()>(s[0], s[1])..crate::math::pt2(e[0], e[1])).sample(&mut g);
    kani::cover!(true);
    assert!(eqb(p.x(), r0) && eqb(p.y(), r1) && g.0 == h);
}

// @ob props=C19 tier=thorough kind=P cfg=core-std timeout=3000
// @fn <(D,E) as Distrib>::sample
// @clause the tuple distribution draws its first then its second component and leaves the same final state
#[cfg(not(verif_skip_rand_tuple_in_order_f32))]
#[kani::proof]
fn rand_tuple_in_order_f32() {
    let g0 = any_rng();
    let (s, e): ([f32; 2], [f32; 2]) = (kani::any(), kani::any());
    let (r0, r1, h) = seq2(g0, s, e);
    let mut g = g0;
    let t = (Uniform(s[0]..e[0]), Uniform(s[1]..e[1])).sample(&mut g);
    kani::cover!(true);
    assert!(eqb(t.0, r0) && eqb(t.1, r1) && g.0 == h);
}

// Tried and dropped: the i32 instantiation of the in-order obligation (six 32-bit rem_euclid divisions): no verdict in 50 min.
// The generic obligation rand_components_in_order_generic covers the impls for every component type by parametricity.

// @ob props=C19 tier=quick kind=P cfg=core-std timeout=600
// @fn <UnitCircle as Distrib>::sample ; Vector::normalize
// @clause for every generator state the unit-circle sampler returns without panicking: it never hands the zero vector to normalize() and rejects at most one draw (loop fully unwound, unwinding assertion on)
#[cfg(feature = "fp")]
#[cfg(not(verif_skip_rand_unit_circle_total))]
#[kani::proof]
#[kani::unwind(4)]
fn rand_unit_circle_total() {
    let mut g = any_rng();
    let _v = UnitCircle.sample(&mut g);
    kani::cover!(true);
}

// @ob props=C19 tier=thorough kind=P cfg=core-std timeout=1800
// @fn <UnitSphere as Distrib>::sample ; Vector::normalize
// @clause for every generator state the unit-sphere sampler returns without panicking: it never hands the zero vector to normalize() and rejects at most one draw (loop fully unwound, unwinding assertion on)
#[cfg(feature = "fp")]
#[cfg(not(verif_skip_rand_unit_sphere_total))]
#[kani::proof]
#[kani::unwind(5)]
fn rand_unit_sphere_total() {
    let mut g = any_rng();
    let _v = UnitSphere.sample(&mut g);
    kani::cover!(true);
}

// Tried and dropped: "samples from the unit disk/ball lie inside it" as a bounded stand-in. With at most 2 rejections (3 iterations
// of the rejection loop, each two or three xorshift steps plus a float comparison) CBMC gave no verdict in 50 min, in the design spike
// (25 min) and again as a combined disk+ball harness (20 min); 17 rejections were not attempted further. The clause stays undecided
// (DESIGN.md C19 [U], L3): the second-round seed C19b (retry bound of 16, then the candidate is returned unchecked) is therefore missed.

// @ob props=C19 tier=quick kind=P cfg=core-std timeout=600
// @fn Distrib::samples ; <Iter<D,R> as Iterator>::next
// @clause the samples() iterator never ends and yields exactly the sequence of repeated sample() calls on the same generator (equal seeds, equal sequences), leaving it in the same state
#[cfg(not(verif_skip_rand_samples_iterator))]
#[kani::proof]
#[kani::unwind(4)]
fn rand_samples_iterator() {
    let g0 = any_rng();
    // the harness-defined component type: samples() is generic in the distribution, so one cheap instantiation decides it
    let d = Uniform(Tok(kani::any())..Tok(kani::any()));
    let mut h = g0;
    let (r0, r1) = (d.sample(&mut h), d.sample(&mut h));
    let mut g = g0;
    let (a, b) = {
        let mut it = d.samples(&mut g);
        (it.next(), it.next())
    };
    kani::cover!(true);
    assert!(a == Some(r0) && b == Some(r1) && g.0 == h.0);
}

include!("gen/dispatch_rand.rs");
