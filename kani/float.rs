// Harness module for core/src/math/float.rs (child of `math::float`, cfg(kani) only).
// @module math::float::verif_kani
#![allow(unused_imports)]
use super::*;

/// `r` is the mathematically exact floor of `x` (for |x| < 2^63, where `as i64` is exact on integers).
/// Written without subtraction: `x - r < 1` is false in f32 for tiny negative x (DESIGN 3a.2).
pub(crate) fn is_floor_of(r: core::primitive::f32, x: core::primitive::f32) -> bool {
    r == (r as i64) as core::primitive::f32 && r <= x && (x == r || x < r + 1.0)
}

/// `r` is |x|: sign bit clear, same magnitude bits (NaN stays NaN).
pub(crate) fn is_abs_of(r: core::primitive::f32, x: core::primitive::f32) -> bool {
    r.to_bits() == x.to_bits() & 0x7fff_ffff
}

pub(crate) fn in_i64_range(x: core::primitive::f32) -> bool {
    x > -9.0e18 && x < 9.0e18
}

pub(crate) fn in_i32_range(x: core::primitive::f32) -> bool {
    x > -2147483000.0 && x < 2147483000.0
}

// @ob props=C20 tier=quick kind=P cfg=core-none,core-std timeout=300
// @fn fallback::floor
// @clause contract of the built-in fallback floor: for every |x| < 2^63 the result is an integer r with r <= x < r+1 (exact floor, negative integers and -0.0 included)
#[cfg(not(verif_skip_float_fallback_floor_contract))]
#[kani::proof_for_contract(fallback::floor)]
fn float_fallback_floor_contract() {
    let x: core::primitive::f32 = kani::any();
    let r = fallback::floor(x);
    assert!(!in_i64_range(x) || is_floor_of(r, x)); // explicit, for native replay
}

// @ob props=C20 tier=quick kind=P cfg=core-none,core-std timeout=300
// @fn fallback::abs
// @clause contract of the fallback abs (in place): for every f32 bit pattern the result is the input with the sign bit cleared
#[cfg(not(verif_skip_float_fallback_abs_contract))]
#[kani::proof_for_contract(fallback::abs)]
fn float_fallback_abs_contract() {
    let x: core::primitive::f32 = kani::any();
    let r = fallback::abs(x);
    assert!(is_abs_of(r, x)); // explicit, for native replay
}

// @ob props=C20 tier=quick kind=P cfg=core-none,core-std timeout=300
// @fn fallback::abs
// @clause the fallback abs is exact for every f32 bit pattern: |x| for numbers, NaN stays NaN, result has a clear sign bit
#[cfg(not(verif_skip_float_fallback_abs_exact))]
#[kani::proof]
fn float_fallback_abs_exact() {
    let x: core::primitive::f32 = kani::any();
    let r = fallback::abs(x);
    kani::cover!(x < 0.0);
    assert!(!r.is_sign_negative());
    if x.is_nan() {
        assert!(r.is_nan());
    } else {
        assert!(r == if x < 0.0 { -x } else { x });
    }
}

// @ob props=C20 tier=quick kind=P cfg=core-mm timeout=300
// @fn mm::floor mm::abs
// @clause micromath backend: floor is exact for every |x| < 2^31, abs is exact for every bit pattern
#[cfg(feature = "mm")]
#[cfg(not(verif_skip_float_mm_floor_abs_exact))]
#[kani::proof]
fn float_mm_floor_abs_exact() {
    let x: core::primitive::f32 = kani::any();
    let a = mm::abs(x);
    assert!(x.is_nan() || a == if x < 0.0 { -x } else { x });
    if in_i32_range(x) {
        kani::cover!(x < 0.0 && x == (x as i32) as core::primitive::f32);
        assert!(is_floor_of(mm::floor(x), x));
    }
}

// @ob props=C20 tier=quick kind=P cfg=core-libm timeout=300
// @fn libm::floor libm::abs
// @clause libm backend: floor is exact for every |x| < 2^63 and maps every finite x to an integer <= x, abs is exact for every bit pattern
#[cfg(feature = "libm")]
#[cfg(not(verif_skip_float_libm_floor_abs_exact))]
#[kani::proof]
fn float_libm_floor_abs_exact() {
    let x: core::primitive::f32 = kani::any();
    let a = libm::abs(x);
    assert!(x.is_nan() || a == if x < 0.0 { -x } else { x });
    if in_i64_range(x) {
        kani::cover!(x < 0.0 && x == (x as i32) as core::primitive::f32);
        assert!(is_floor_of(libm::floor(x), x));
    } else if x.is_finite() {
        assert!(libm::floor(x) == x);
    }
}

// @ob props=C20 tier=quick kind=P cfg=core-std timeout=300
// @fn f32::floor(std)
// @clause reference backend: std floor satisfies the same floor specification the other backends are held to (so agreement with std is agreement with the spec)
#[cfg(feature = "std")]
#[cfg(not(verif_skip_float_std_floor_is_spec))]
#[kani::proof]
fn float_std_floor_is_spec() {
    let x: core::primitive::f32 = kani::any();
    if in_i64_range(x) {
        kani::cover!(x < 0.0);
        assert!(is_floor_of(x.floor(), x));
    }
}

// @ob props=C20 tier=quick kind=P cfg=core-libm,core-none,core-mm timeout=2400
// @fn libm::recip_sqrt ; fallback::recip_sqrt ; mm::recip_sqrt ; RecipSqrt::recip_sqrt
// @clause the reciprocal square root of the active backend is finite and positive for every positive finite input, subnormals included (no overflow to infinity, no NaN); its accuracy against std is not decided
#[cfg(not(feature = "std"))]
#[cfg(not(verif_skip_float_recip_sqrt_finite))]
#[kani::proof]
#[kani::unwind(40)]
fn float_recip_sqrt_finite() {
    let x: core::primitive::f32 = kani::any();
    kani::assume(x > 0.0 && x.is_finite());
    let r = f32::recip_sqrt(x);
    kani::cover!(x < 1.0e-39);
    assert!(r.is_finite() && r > 0.0);
}

// @ob props=C20 tier=quick kind=P cfg=core-mm timeout=1500
// @fn mm::sqrt ; mm::recip_sqrt
// @clause micromath backend: sqrt (one Newton step over the fast approximation) is finite and non-negative for every finite x >= 0, zero included, and sqrt and recip_sqrt are consistent in sign; accuracy against std is not decided
#[cfg(feature = "mm")]
#[cfg(not(verif_skip_float_mm_sqrt_total))]
#[kani::proof]
fn float_mm_sqrt_total() {
    let x: core::primitive::f32 = kani::any();
    kani::assume(x >= 0.0 && x.is_finite());
    let r = mm::sqrt(x);
    kani::cover!(x == 0.0);
    kani::cover!(x > 1.0e30);
    assert!(r.is_finite() && r >= 0.0);
}

// @ob props=C20 tier=quick kind=P cfg=core-mm timeout=2400
// @fn mm::sqrt
// @clause micromath backend: the square of sqrt(x) is within 0.5 % of x for every x in [1e-30, 1e30], i.e. sqrt is within 0.25 % (the property allows "about 1e-3" for the square roots; the true worst case is 0.17 %, at x = 2^15: a 0.25 % bound on the square is refuted with that input)
#[cfg(feature = "mm")]
#[cfg(not(verif_skip_float_mm_sqrt_accuracy))]
#[kani::proof]
fn float_mm_sqrt_accuracy() {
    let x: core::primitive::f32 = kani::any();
    kani::assume(x >= 1.0e-30 && x <= 1.0e30);
    let r = mm::sqrt(x);
    kani::cover!(x > 2.0 && x < 3.0);
    let sq = r * r;
    assert!(sq >= x - 0.005 * x && sq <= x + 0.005 * x);
}

// Tried and dropped: accuracy of the fast reciprocal square roots (r*r*x within 1 % of 1 on [1e-18, 1e18]): no verdict in 18 min
// in either backend (three chained symbolic products on top of the Newton step; limit L1). Finiteness/positivity is decided above.

// Tried and dropped: fallback::rem_euclid on ten CONCRETE dyadic argument pairs (the single-concrete-input form that decides
// inverse() and parse_obj): fails in 0.1 s with a spurious counterexample -- CBMC's f32 `%` is nondeterministic even on constant
// operands, so no clause about rem_euclid (and nothing built on it: Angle::wrap, the float HSL hue) is decidable here.

include!("gen/dispatch_float.rs");
