// Harness module for core/src/math/angle.rs (child of `math::angle`, cfg(kani) only).
// @module math::angle::verif_kani
//
// Only the float-arithmetic clauses of C18 are decidable here: wrap() goes through rem_euclid (`%`), the coordinate changes and
// sin_cos through transcendental functions, all of which CBMC over-approximates (DESIGN L2).
#![allow(unused_imports)]
use super::*;
type F = core::primitive::f32;

fn normal(x: F) -> bool {
    let a = if x < 0.0 { -x } else { x };
    a >= 1.0e-30 && a <= 1.0e30
}

/// distance in units in the last place between two finite floats of the same sign (no float arithmetic in the spec)
fn ulps(a: F, b: F) -> i64 {
    let d = a.to_bits() as i64 - b.to_bits() as i64;
    if d < 0 { -d } else { d }
}

// @ob props=C18 tier=quick kind=P cfg=core-std,core-none timeout=900
// @fn rads ; degs ; turns ; Angle::to_rads ; Angle::to_degs ; Angle::to_turns
// @clause unit constants and exact cases: rads(x).to_rads() is x bit for bit for every f32; a full turn is 2 pi radians and 360 degrees, a right angle 90, a straight angle 180 degrees; zero converts to zero in every unit
#[cfg(not(verif_skip_angle_unit_constants))]
#[kani::proof]
fn angle_unit_constants() {
    let x: F = kani::any();
    kani::cover!(x < -1.0);
    assert!(rads(x).to_rads().to_bits() == x.to_bits());
    assert!(degs(0.0).to_rads() == 0.0 && turns(0.0).to_degs() == 0.0 && rads(0.0).to_turns() == 0.0);
    assert!(turns(1.0).to_degs() == 360.0 && degs(180.0).to_rads() == core::f32::consts::PI && Angle::FULL.to_turns() == 1.0);
    assert!(turns(1.0).to_rads() == core::f32::consts::TAU && degs(360.0).to_turns() == 1.0);
    assert!(Angle::RIGHT.to_degs() == 90.0 && Angle::STRAIGHT.to_degs() == 180.0 && Angle::ZERO.to_rads() == 0.0);
}

// Tried and dropped: the unit round trips (degs(x).to_degs(), turns(x).to_turns() within 3 ulp; turns(t).to_degs() = 360 t within
// 5 ulp), first with a relative-error spec, then with the distance measured in ulps on the bit patterns (no float arithmetic in the
// spec at all): a float multiplication followed by a float division by constants gave no verdict in 26 and 18 minutes. With the
// conversions undecided, what is left of C18 here (constants, min/max/clamp and the operators) is too small a part of the statement
// to claim; C18 stays not applicable and the obligations below are auxiliary (they belong to no registered check).

// @ob props=C18 tier=quick kind=P cfg=core-std,core-none timeout=900
// @fn Angle::min ; Angle::max ; Angle::clamp ; <Angle as Add>::add ; <Angle as Sub>::sub ; <Angle as Neg>::neg ; <Angle as Affine>::add ; <Angle as Affine>::sub ; <Angle as Linear>::neg ; polar ; spherical ; PolarVec::r ; PolarVec::az ; SphericalVec::alt
// @clause clamp, min, max, +, - and negation act on the underlying magnitude: for all NaN-free f32 radian values the result's magnitude is bit for bit the f32 operation on the magnitudes; the Affine/Linear trait methods agree with the operators; polar/spherical vectors store radius and angles unchanged
#[cfg(not(verif_skip_angle_ops_act_on_magnitude))]
#[kani::proof]
fn angle_ops_act_on_magnitude() {
    let (a, b, c, k): (F, F, F, F) = (kani::any(), kani::any(), kani::any(), kani::any());
    kani::assume(!a.is_nan() && !b.is_nan() && !c.is_nan() && !k.is_nan());
    let (x, y, z) = (rads(a), rads(b), rads(c));
    let eq = |p: F, q: F| p.to_bits() == q.to_bits() || (p.is_nan() && q.is_nan());
    kani::cover!(a < b);
    assert!(eq(x.min(y).to_rads(), a.min(b)) && eq(x.max(y).to_rads(), a.max(b)));
    if b <= c {
        let r = x.clamp(y, z).to_rads();
        assert!(eq(r, a.clamp(b, c)) && r >= b && r <= c);
    }
    assert!(eq((x + y).to_rads(), a + b) && eq((x - y).to_rads(), a - b) && eq((-x).to_rads(), -a));
    assert!(eq(Affine::add(&x, &y).to_rads(), a + b) && eq(Affine::sub(&x, &y).to_rads(), a - b));
    assert!(eq(Linear::neg(&x).to_rads(), -a) && <Angle as Linear>::zero().to_rads() == 0.0);
    let p = polar(k, x);
    assert!(eq(p.r(), k) && eq(p.az().to_rads(), a));
    let s = spherical(k, x, y);
    assert!(eq(s.r(), k) && eq(s.az().to_rads(), a) && eq(s.alt().to_rads(), b));
}

// @ob props=C18 tier=quick kind=B cfg=core-std,core-none timeout=900
// @fn <Angle as Mul<f32>>::mul ; <Angle as Div<f32>>::div ; <Angle as Linear>::mul
// @bound scalar factors in {2, 1/2, -4} (powers of two: the product is exact, so the spec needs no second multiplier circuit)
// @clause scaling an angle scales its magnitude: (a * k) and (a / k) act on the radians for every f32 a
#[cfg(not(verif_skip_angle_scaling))]
#[kani::proof]
fn angle_scaling() {
    let a: F = kani::any();
    kani::assume(!a.is_nan());
    let x = rads(a);
    let eq = |p: F, q: F| p.to_bits() == q.to_bits() || (p.is_nan() && q.is_nan());
    kani::cover!(a > 1.0);
    assert!(eq((x * 2.0).to_rads(), a + a) && eq((x / 0.5).to_rads(), a + a));
    assert!(eq((x * -4.0).to_rads(), -((a + a) + (a + a))) && eq((x / 2.0).to_rads(), a * 0.5));
    assert!(eq(Linear::mul(&x, 2.0).to_rads(), a + a));
}

include!("gen/dispatch_angle.rs");
