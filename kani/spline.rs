// Harness module for core/src/math/spline.rs (child of `math::spline`, cfg(kani) only).
// @module math::spline::verif_kani
#![allow(unused_imports)]
use super::*;
type F = core::primitive::f32;

fn bits_eq(a: F, b: F) -> bool {
    a.to_bits() == b.to_bits()
}

// @ob props=C17 tier=quick kind=P cfg=core-std timeout=900
// @fn step ; CubicBezier::eval ; CubicBezier::fast_eval
// @clause at and beyond the ends both cubic evaluators return exactly the first control point (t <= 0) and the last (t >= 1), for all control points and all f32 t; no t (NaN, infinities included) makes them panic
#[cfg(not(verif_skip_spline_bezier_endpoints_exact))]
#[kani::proof]
fn spline_bezier_endpoints_exact() {
    let p: [F; 4] = kani::any();
    let t: F = kani::any();
    let b = CubicBezier(p);
    let (e, f) = (b.eval(t), b.fast_eval(t));
    kani::cover!(t > 1.0);
    kani::cover!(t.is_nan());
    if t <= 0.0 {
        assert!(bits_eq(e, p[0]) && bits_eq(f, p[0]));
    }
    if t >= 1.0 {
        assert!(bits_eq(e, p[3]) && bits_eq(f, p[3]));
    }
    let q: [[F; 2]; 4] = kani::any();
    let b2 = CubicBezier(q.map(crate::math::Vec2::<()>::from));
    let (e2, f2) = (b2.eval(t), b2.fast_eval(t));
    if t <= 0.0 {
        assert!(bits_eq(e2.x(), q[0][0]) && bits_eq(e2.y(), q[0][1]) && bits_eq(f2.x(), q[0][0]) && bits_eq(f2.y(), q[0][1]));
    }
    if t >= 1.0 {
        assert!(bits_eq(e2.x(), q[3][0]) && bits_eq(e2.y(), q[3][1]) && bits_eq(f2.x(), q[3][0]) && bits_eq(f2.y(), q[3][1]));
    }
}

// @ob props=C17 tier=quick kind=P cfg=core-std timeout=1800
// @fn smoothstep ; step
// @clause smoothstep returns exactly 0 for t <= 0 and exactly 1 for t >= 1, and a value in [0, 1] up to rounding (1e-5) for every t in between; never NaN for non-NaN input
#[cfg(not(verif_skip_spline_smoothstep_range))]
#[kani::proof]
fn spline_smoothstep_range() {
    let t: F = kani::any();
    kani::assume(!t.is_nan());
    let a = smoothstep(t);
    kani::cover!(t > 0.25 && t < 0.75);
    if t <= 0.0 {
        assert!(a == 0.0);
    } else if t >= 1.0 {
        assert!(a == 1.0);
    } else {
        assert!(a >= -1e-5 && a <= 1.0 + 1e-5);
    }
}

// @ob props=C17 tier=quick kind=P cfg=core-std timeout=600
// @fn smootherstep ; step
// @clause smootherstep returns exactly 0 for every t <= 0 and exactly 1 for every t >= 1 (the in-between range is a thorough-tier obligation)
#[cfg(not(verif_skip_spline_smootherstep_ends))]
#[kani::proof]
fn spline_smootherstep_ends() {
    let t: F = kani::any();
    kani::assume(t <= 0.0 || t >= 1.0);
    let b = smootherstep(t);
    kani::cover!(t > 1.0);
    assert!(b == if t <= 0.0 { 0.0 } else { 1.0 });
}

// Tried and dropped: the in-between range of smootherstep (a degree-5 polynomial in Horner form, 0 <= . <= 1 up to rounding) and
// the clamping of CubicBezier::tangent for symbolic t (even with integer-valued control points): no verdict in 24 min each on an
// otherwise idle machine. Their end values are covered by spline_smootherstep_ends / spline_bezier_endpoints_exact.

const MAXPTS: usize = 25;

// @ob props=C17 tier=quick kind=B cfg=core-std timeout=1800
// @fn BezierSpline::segment ; BezierSpline::eval ; BezierSpline::tangent
// @bound segment counts 1..8 (3n+1 control points, n <= 8); complete in t (all f32, NaN and infinities included)
// @clause segment selection never indexes out of bounds for any t; for t in [0,1] the selected segment k satisfies k <= t*n <= k+1 (within rounding) and the local parameter lies in [-1e-3, 1+1e-3]; at a join t = k/n the spline passes through control point 3k; eval returns the first/last control point at and beyond the ends
#[cfg(not(verif_skip_spline_segment_selection))]
#[kani::proof]
#[kani::unwind(27)]
fn spline_segment_selection() {
    let n: usize = kani::any();
    kani::assume(n >= 1 && n <= 8);
    let mut pts = [0.0f32; MAXPTS];
    let mut i = 0;
    while i < MAXPTS {
        pts[i] = i as F; // control point i carries its own index
        i += 1;
    }
    let s = BezierSpline::new(&pts[..3 * n + 1]);
    let t: F = kani::any();
    let (t2, seg) = s.segment(t);
    kani::cover!(n == 8 && t > 0.9 && t < 1.0);
    kani::cover!(t.is_nan());
    let k = seg[0] as usize / 3;
    assert!(seg[0] as usize % 3 == 0 && k < n);
    assert!(seg[1] == seg[0] + 1.0 && seg[2] == seg[0] + 2.0 && seg[3] == seg[0] + 3.0);
    if t >= 0.0 && t <= 1.0 {
        assert!(t2 >= -1e-3 && t2 <= 1.0 + 1e-3);
        assert!(t * n as F >= k as F - 1e-3 && t * n as F <= k as F + 1.0 + 1e-3);
    }
    let e = s.eval(t);
    if t <= 0.0 {
        assert!(e == 0.0);
    }
    if t >= 1.0 {
        assert!(e == (3 * n) as F);
    }
    let _ = s.tangent(t);
}

// @ob props=C17 tier=quick kind=B cfg=core-std timeout=900
// @fn BezierSpline::new
// @bound control point counts 0..25
// @allow_panic BezierSpline::<.*>::new
// @clause the spline constructor rejects every control point count that is not 3n+1 with n >= 1: whenever it returns, the count has that form and the points are stored in order
#[cfg(not(verif_skip_spline_new_rejects_bad_lengths))]
#[kani::proof]
#[kani::unwind(27)]
fn spline_new_rejects_bad_lengths() {
    let len: usize = kani::any();
    kani::assume(len <= MAXPTS);
    let pts: [F; MAXPTS] = kani::any();
    kani::cover!(len == 7);
    kani::cover!(len == 5);
    let s = BezierSpline::new(&pts[..len]);
    assert!(len >= 4 && len % 3 == 1);
    assert!(s.0.len() == len && s.0[0].to_bits() == pts[0].to_bits() && s.0[len - 1].to_bits() == pts[len - 1].to_bits());
}

// @ob props=C17 tier=quick kind=B cfg=core-std timeout=900
// @fn BezierSpline::new
// @bound segment counts 1..8
// @clause the spline constructor accepts every control point count 3n+1 with n >= 1
#[cfg(not(verif_skip_spline_new_accepts_good_lengths))]
#[kani::proof]
#[kani::unwind(27)]
fn spline_new_accepts_good_lengths() {
    let n: usize = kani::any();
    kani::assume(n >= 1 && n <= 8);
    let pts: [F; MAXPTS] = kani::any();
    let s = BezierSpline::new(&pts[..3 * n + 1]);
    kani::cover!(n == 8);
    assert!(s.0.len() == 3 * n + 1);
}

// @ob props=C17 tier=quick kind=B cfg=core-std timeout=1800
// @fn BezierSpline::approximate ; BezierSpline::do_approx
// @bound 1 or 2 segments; the caller's criterion accepts immediately (no subdivision)
// @clause the polyline approximation starts exactly at the first control point and ends exactly at the last
#[cfg(not(verif_skip_spline_approximate_endpoints))]
#[kani::proof]
#[kani::unwind(12)]
fn spline_approximate_endpoints() {
    let pts: [F; 7] = kani::any();
    let two: bool = kani::any();
    let s = BezierSpline::new(if two { &pts[..7] } else { &pts[..4] });
    let poly = s.approximate(|_| true);
    kani::cover!(two);
    assert!(poly.len() == 2);
    assert!(bits_eq(poly[0], pts[0]));
    assert!(bits_eq(poly[1], if two { pts[6] } else { pts[3] }));
}

include!("gen/dispatch_spline.rs");
