// Harness module for core/src/math/mat.rs (child of `math::mat`, cfg(kani) only).
// @module math::mat::verif_kani
#![allow(unused_imports)]
use super::*;
use crate::math::point::{pt2, pt3};
use crate::math::vec::{vec2, vec3};
type F = core::primitive::f32;

fn any_finite() -> F {
    let x: F = kani::any();
    kani::assume(x.is_finite());
    x
}
fn any_in(lo: F, hi: F) -> F {
    let x: F = kani::any();
    kani::assume(x >= lo && x <= hi);
    x
}
fn any_vec3() -> Vec3 {
    vec3(any_finite(), any_finite(), any_finite())
}

// ------------------------------------------------------------------ C08: viewport / projections

// @ob props=C08,C02 tier=quick kind=P cfg=core-std timeout=1800
// @fn viewport ; Mat4x4<RealToReal>::apply
// @clause the viewport matrix maps the NDC square into the requested pixel rectangle, x axis: for every 0 <= l <= r < 65536 (any fixed vertical extent) and every NDC x with |x| <= 1 the screen x satisfies l <= x_s <= r; y and z do not leak into x
#[cfg(not(verif_skip_mat_viewport_band_x))]
#[kani::proof]
#[kani::unwind(6)]
fn mat_viewport_band_x() {
    let (l, r): (u32, u32) = (kani::any(), kani::any());
    kani::assume(l <= r && r < 65536);
    let m = viewport(pt2(l, 3)..pt2(r, 11));
    let x = any_in(-1.0, 1.0);
    let s = m.apply(&vec3(x, 0.25, 0.5));
    kani::cover!(l + 3 < r && x > 0.3);
    assert!(s.x() >= l as F && s.x() <= r as F);
    assert!(s.y() == 8.0 && s.z() == 0.5);
    assert!(m.0[0][1] == 0.0 && m.0[0][2] == 0.0);
}

// @ob props=C08,C02 tier=quick kind=P cfg=core-std timeout=1800
// @fn viewport ; Mat4x4<RealToReal>::apply
// @clause the viewport matrix maps the NDC square into the requested pixel rectangle, y axis and depth: for every 0 <= t <= b < 65536 and every NDC y with |y| <= 1 the screen y satisfies t <= y_s <= b (top maps to t: no axis flip), and every finite depth passes through unchanged
#[cfg(not(verif_skip_mat_viewport_band_y))]
#[kani::proof]
#[kani::unwind(6)]
fn mat_viewport_band_y() {
    let (t, b): (u32, u32) = (kani::any(), kani::any());
    kani::assume(t <= b && b < 65536);
    let m = viewport(pt2(2, t)..pt2(10, b));
    let (y, z) = (any_in(-1.0, 1.0), any_finite());
    let s = m.apply(&vec3(-0.5, y, z));
    kani::cover!(t + 3 < b && y > 0.3);
    assert!(s.y() >= t as F && s.y() <= b as F);
    assert!(s.x() == 4.0 && s.z() == z);
    assert!(m.apply(&vec3(0.0, -1.0, 0.0)).y() == t as F && m.apply(&vec3(0.0, 1.0, 0.0)).y() == b as F);
}

// @ob props=C08,C02 tier=thorough kind=P cfg=core-std timeout=3000
// @fn viewport ; Mat4x4<RealToReal>::apply
// @clause the viewport matrix maps the NDC corners exactly onto the requested pixel rectangle: (-1,-1,z) to (l,t,z) and (1,1,z) to (r,b,z) for every rectangle below 65536^2 and every finite z; the centre maps to the rectangle's centre
#[cfg(not(verif_skip_mat_viewport_corners_exact))]
#[kani::proof]
#[kani::unwind(6)]
fn mat_viewport_corners_exact() {
    let (l, t, r, b): (u32, u32, u32, u32) = (kani::any(), kani::any(), kani::any(), kani::any());
    kani::assume(l <= r && r < 65536 && t <= b && b < 65536);
    let m = viewport(pt2(l, t)..pt2(r, b));
    let z = any_finite();
    let lo = m.apply(&vec3(-1.0, -1.0, z));
    let hi = m.apply(&vec3(1.0, 1.0, z));
    kani::cover!(l + 3 < r);
    assert!(lo.x() == l as F && lo.y() == t as F && lo.z() == z);
    assert!(hi.x() == r as F && hi.y() == b as F && hi.z() == z);
}

// @ob props=C08 tier=quick kind=P cfg=core-std timeout=600
// @fn perspective
// @allow_panic ^math::mat::perspective:
// @clause perspective() rejects non-positive focal ratio, aspect ratio or near plane, NaN parameters, and an empty or inverted near..far range: whenever it returns, all of those are positive and near < far
#[cfg(not(verif_skip_mat_perspective_rejects_bad_parameters))]
#[kani::proof]
fn mat_perspective_rejects_bad_parameters() {
    let (fr, ar, near, far): (F, F, F, F) = (kani::any(), kani::any(), kani::any(), kani::any());
    kani::cover!(fr > 0.0 && ar > 0.0 && near > 0.0 && near < far);
    kani::cover!(!(near < far));
    let _ = perspective(fr, ar, near..far);
    assert!(fr > 0.0 && ar > 0.0 && near > 0.0 && near < far);
}

fn any_persp() -> (F, F, F, F) {
    let (fr, ar, near, far) = (any_in(0.01, 100.0), any_in(0.01, 100.0), any_in(0.001, 1000.0), any_in(0.001, 1.0e6));
    kani::assume(near < far && far <= near * 1000.0);
    (fr, ar, near, far)
}

// @ob props=C08 tier=quick kind=P cfg=core-std timeout=1800
// @fn perspective ; Mat4x4<RealToProj>::apply
// @clause perspective projection, exact parts: for every parameter set in the documented ranges (far/near <= 1000) and every finite view-space point, w' = z exactly (so w > 0 iff the point is in front of the camera) and the matrix has the documented sparsity
#[cfg(not(verif_skip_mat_perspective_w_is_depth))]
#[kani::proof]
#[kani::unwind(6)]
fn mat_perspective_w_is_depth() {
    let (fr, ar, near, far) = any_persp();
    let m = perspective(fr, ar, near..far);
    let p = pt3(any_finite(), any_finite(), any_finite());
    let q = m.apply(&p);
    kani::cover!(p.z() > near);
    assert!(q.w() == p.z());
    assert!(m.0[0][0] == fr && m.0[3] == [0.0, 0.0, 1.0, 0.0]);
    assert!(m.0[0][1] == 0.0 && m.0[0][2] == 0.0 && m.0[0][3] == 0.0 && m.0[1][0] == 0.0 && m.0[1][2] == 0.0 && m.0[1][3] == 0.0);
    assert!(m.0[2][0] == 0.0 && m.0[2][1] == 0.0);
}

// @ob props=C08 tier=thorough kind=P cfg=core-std timeout=3600
// @fn perspective ; Mat4x4<RealToProj>::apply
// @clause perspective projection, exact parts: x' = focal_ratio * x bit-exactly for every finite point (so |x'| <= w' iff |x| * focal_ratio <= z)
#[cfg(not(verif_skip_mat_perspective_x_exact))]
#[kani::proof]
#[kani::unwind(6)]
fn mat_perspective_x_exact() {
    let (fr, ar, near, far) = any_persp();
    let m = perspective(fr, ar, near..far);
    let p = pt3(any_in(-1.0e6, 1.0e6), any_in(-1.0e6, 1.0e6), any_in(-1.0e6, 1.0e6));
    let q = m.apply(&p);
    kani::cover!(true);
    assert!(q.x() == fr * p.x());
}

// @ob props=C08 tier=thorough kind=P cfg=core-std timeout=3600
// @fn perspective ; Mat4x4<RealToProj>::apply
// @clause perspective projection, exact parts: y' = (focal_ratio * aspect_ratio) * y bit-exactly for every finite point
#[cfg(not(verif_skip_mat_perspective_y_exact))]
#[kani::proof]
#[kani::unwind(6)]
fn mat_perspective_y_exact() {
    let (fr, ar, near, far) = any_persp();
    let m = perspective(fr, ar, near..far);
    let p = pt3(any_in(-1.0e6, 1.0e6), any_in(-1.0e6, 1.0e6), any_in(-1.0e6, 1.0e6));
    let q = m.apply(&p);
    kani::cover!(true);
    assert!(q.y() == (fr * ar) * p.y());
}

// Tried and dropped: orthographic() with a SYMBOLIC box on one axis (sides map to -1/+1 within 1e-3 under the property's conditioning
// assumption): no verdict in 30 min (reciprocal, two products and a sum, all symbolic). The fixed-box obligation below pins the
// structure; the numeric clause for arbitrary boxes stays undecided (L1).

// @ob props=C08 tier=quick kind=B cfg=core-std timeout=900
// @fn orthographic ; Mat4x4<RealToProj>::apply
// @bound one fixed box with distinct extents per axis ((-3,-2,1)..(5,6,9)); complete in the probe point (all finite f32 triples)
// @clause orthographic projection: w' = 1 exactly for every finite point; each axis uses its own box extents (corners map to -1/+1 on all three axes, no axis mix-up); the matrix has the documented sparsity
#[cfg(not(verif_skip_mat_orthographic_structure))]
#[kani::proof]
#[kani::unwind(6)]
fn mat_orthographic_structure() {
    let m = orthographic(pt3(-3.0, -2.0, 1.0), pt3(5.0, 6.0, 9.0));
    let p = pt3(any_finite(), any_finite(), any_finite());
    kani::cover!(true);
    assert!(m.apply(&p).w() == 1.0);
    let (a, b) = (m.apply(&pt3(-3.0, -2.0, 1.0)), m.apply(&pt3(5.0, 6.0, 9.0)));
    assert!(a.x() == -1.0 && a.y() == -1.0 && a.z() == -1.0 && b.x() == 1.0 && b.y() == 1.0 && b.z() == 1.0);
    assert!(m.0[3] == [0.0, 0.0, 0.0, 1.0] && m.0[0][1] == 0.0 && m.0[1][0] == 0.0 && m.0[2][0] == 0.0 && m.0[2][1] == 0.0);
}

// ------------------------------------------------------------------ C09: transform algebra (exact defining effects)

// @ob props=C09 tier=quick kind=P cfg=core-std timeout=1800
// @fn translate ; Mat4x4<RealToReal>::apply_pt
// @clause translate(t) moves every finite point p to p + t exactly (component-wise, one rounding, same as the vector sum)
#[cfg(not(verif_skip_mat_translate_point_exact))]
#[kani::proof]
#[kani::unwind(6)]
fn mat_translate_point_exact() {
    let t = any_vec3();
    let p = pt3(any_finite(), any_finite(), any_finite());
    let q = translate(t).apply_pt(&p);
    kani::cover!(t.x() > 1.0 && p.x() < -1.0);
    let same = |a: F, b: F| a == b || (a.is_nan() && b.is_nan());
    assert!(same(q.x(), p.x() + t.x()) && same(q.y(), p.y() + t.y()) && same(q.z(), p.z() + t.z()));
}

// @ob props=C09 tier=quick kind=P cfg=core-std timeout=1800
// @fn scale ; Mat4x4<RealToReal>::apply ; Mat4x4<RealToReal>::apply_pt
// @clause scale(s) multiplies every finite vector and point component-wise by s exactly (one rounding per component, negative factors included)
#[cfg(not(verif_skip_mat_scale_exact))]
#[kani::proof]
#[kani::unwind(6)]
fn mat_scale_exact() {
    let s = any_vec3();
    let v = any_vec3();
    let r = scale(s).apply(&v);
    let rp = scale(s).apply_pt(&v.to_pt());
    kani::cover!(s.x() < 0.0);
    assert!(r.x() == s.x() * v.x() && r.y() == s.y() * v.y() && r.z() == s.z() * v.z());
    assert!(rp.x() == r.x() && rp.y() == r.y() && rp.z() == r.z());
}

// @ob props=C09 tier=quick kind=P cfg=core-std timeout=1800
// @fn Mat4x4::identity ; Mat4x4::from_basis ; Mat4x4<RealToReal>::apply
// @clause identity() leaves every finite vector unchanged; from_basis(i,j,k) sends the unit vectors to i, j, k exactly and has the documented layout (basis vectors as columns, last row 0 0 0 1)
#[cfg(not(verif_skip_mat_identity_basis_exact))]
#[kani::proof]
#[kani::unwind(6)]
fn mat_identity_basis_exact() {
    let v = any_vec3();
    let id = Mat4x4::<RealToReal<3>>::identity();
    let w = id.apply(&v);
    kani::cover!(true);
    assert!(w.x() == v.x() && w.y() == v.y() && w.z() == v.z());
    let (i, j, k) = (any_vec3(), any_vec3(), any_vec3());
    let m = Mat4x4::<RealToReal<3>>::from_basis(i, j, k);
    assert!(m.0[0] == [i.x(), j.x(), k.x(), 0.0] && m.0[1] == [i.y(), j.y(), k.y(), 0.0] && m.0[2] == [i.z(), j.z(), k.z(), 0.0]);
    assert!(m.0[3] == [0.0, 0.0, 0.0, 1.0]);
    let ex = m.apply(&vec3(1.0, 0.0, 0.0));
    assert!(ex.x() == i.x() && ex.y() == i.y() && ex.z() == i.z());
    let ez = m.apply(&vec3(0.0, 0.0, 1.0));
    assert!(ez.x() == k.x() && ez.y() == k.y() && ez.z() == k.z());
}

// @ob props=C09 tier=quick kind=P cfg=core-std timeout=900
// @fn Matrix::transpose ; Matrix::row_vec ; Matrix::col_vec
// @clause transpose swaps rows and columns (row_vec(i) of the transpose is col_vec(i) of the original) and is an involution, for every 4x4 matrix bit pattern
#[cfg(not(verif_skip_mat_transpose_involution))]
#[kani::proof]
#[kani::unwind(6)]
fn mat_transpose_involution() {
    let els: [[F; 4]; 4] = kani::any();
    let m: Mat4x4<RealToReal<3>> = Matrix::new(els);
    let t = m.transpose();
    let (i, j): (usize, usize) = (kani::any(), kani::any());
    kani::assume(i < 4 && j < 4);
    kani::cover!(i != j);
    assert!(t.0[i][j].to_bits() == els[j][i].to_bits());
    assert!(t.row_vec(i).0[j].to_bits() == m.col_vec(i).0[j].to_bits());
    assert!(t.transpose().0[i][j].to_bits() == els[i][j].to_bits());
}

// @ob props=C09 tier=quick kind=P cfg=core-std timeout=1800
// @fn Mat4x4<RealToReal>::determinant
// @clause the determinant of the identity is exactly 1 and the determinant of every translation (|t| <= 1e6) is exactly 1
#[cfg(not(verif_skip_mat_determinant_translation))]
#[kani::proof]
#[kani::unwind(6)]
fn mat_determinant_translation() {
    let t = vec3(any_in(-1.0e6, 1.0e6), any_in(-1.0e6, 1.0e6), any_in(-1.0e6, 1.0e6));
    kani::cover!(true);
    assert!(Mat4x4::<RealToReal<3>>::identity().determinant() == 1.0);
    assert!(translate(t).determinant() == 1.0);
}

// Tried and dropped: determinant(scale(s)) = s.x * (s.y * s.z) for symbolic s: no verdict in 29 min (the cofactor expansion has
// dozens of symbolic products, most of them with a zero factor, that CBMC does not simplify away; limit L1).

// @ob props=C09 tier=quick kind=P cfg=core-std timeout=900 role=witness
// @fn translate ; Mat4x4<RealToReal>::apply
// @clause WITNESS of a known finding: on vectors a transform should apply its linear part only, i.e. translate(t).apply(v) = v; the code uses homogeneous w = 1 (TODO in the source) and returns v + t
#[cfg(not(verif_skip_mat_translate_vector_linear_part))]
#[kani::proof]
#[kani::unwind(6)]
fn mat_translate_vector_linear_part() {
    let t = vec3(any_in(-1000.0, 1000.0), any_in(-1000.0, 1000.0), any_in(-1000.0, 1000.0));
    let v = vec3(any_in(-1000.0, 1000.0), any_in(-1000.0, 1000.0), any_in(-1000.0, 1000.0));
    let r = translate(t).apply(&v);
    kani::cover!(true);
    assert!(r.x() == v.x() && r.y() == v.y() && r.z() == v.z());
}

// @ob props=C09,C08 tier=quick kind=B cfg=core-std timeout=1200
// @fn Matrix::then ; Matrix::compose ; Mat4x4<RealToReal>::apply_pt
// @bound the non-commutative family a = scale(2, 4, 8), b = translate(t) for ALL finite t (products by the constant scale factors are exact)
// @clause applying a composed transform equals applying its parts in order and then() is compose() with the operands swapped: a.then(b) = b.compose(a) = "scale, then translate" (rows [2,0,0,tx], [0,4,0,ty], [0,0,8,tz]), b.then(a) = "translate, then scale" (last column 2tx, 4ty, 8tz); a.then(b) applied to a point equals b applied to (a applied to the point)
#[cfg(not(verif_skip_mat_then_order_scale_translate))]
#[kani::proof]
#[kani::unwind(6)]
fn mat_then_order_scale_translate() {
    let t = any_vec3();
    let (a, b) = (scale(vec3(2.0, 4.0, 8.0)), translate(t));
    let (ab, ba) = (a.then(&b), b.then(&a));
    let (c1, c2) = (b.compose(&a), a.compose(&b));
    kani::cover!(t.x() != 0.0);
    let want_ab = [[2.0, 0.0, 0.0, t.x()], [0.0, 4.0, 0.0, t.y()], [0.0, 0.0, 8.0, t.z()], [0.0, 0.0, 0.0, 1.0]];
    let want_ba = [[2.0, 0.0, 0.0, 2.0 * t.x()], [0.0, 4.0, 0.0, 4.0 * t.y()], [0.0, 0.0, 8.0, 8.0 * t.z()], [0.0, 0.0, 0.0, 1.0]];
    let mut i = 0;
    while i < 4 {
        let mut j = 0;
        while j < 4 {
            assert!(ab.0[i][j] == want_ab[i][j] && c1.0[i][j] == want_ab[i][j]);
            assert!(ba.0[i][j] == want_ba[i][j] && c2.0[i][j] == want_ba[i][j]);
            j += 1;
        }
        i += 1;
    }
    // apply(compose) = apply in order, on a point with small integer coordinates (all sums exact up to one rounding)
    let p = pt3(3.0, -5.0, 7.0);
    let (q, r) = (ab.apply_pt(&p), b.apply_pt(&a.apply_pt(&p)));
    assert!(q.x() == r.x() && q.y() == r.y() && q.z() == r.z());
}

// @ob props=C09 tier=quick kind=P cfg=core-std timeout=1200
// @fn Matrix::then ; Matrix::compose ; Mat4x4::identity
// @clause composing ANY finite 4x4 matrix with the identity, on either side, returns the matrix unchanged (element-wise equal)
#[cfg(not(verif_skip_mat_compose_identity))]
#[kani::proof]
#[kani::unwind(6)]
fn mat_compose_identity() {
    let els: [[F; 4]; 4] = kani::any();
    let m: Mat4x4<RealToReal<3>> = Matrix::new(els);
    let id = Mat4x4::<RealToReal<3>>::identity();
    let (l, rr) = (id.then(&m), m.then(&id));
    let (i, j): (usize, usize) = (kani::any(), kani::any());
    kani::assume(i < 4 && j < 4);
    kani::assume(els[i][0].is_finite() && els[i][1].is_finite() && els[i][2].is_finite() && els[i][3].is_finite());
    kani::assume(els[0][j].is_finite() && els[1][j].is_finite() && els[2][j].is_finite() && els[3][j].is_finite());
    kani::cover!(i != j);
    assert!(l.0[i][j] == els[i][j] && rr.0[i][j] == els[i][j]);
}

// @ob props=C09 tier=thorough kind=B cfg=core-std timeout=5400
// @fn Matrix::then ; Matrix::compose
// @bound the non-commutative family a = scale(s), b = translate(t), all finite s, t in [-1e3, 1e3]; first output row
// @clause then() is compose() with the operands swapped (bit for bit on row 0), and applying the composite equals applying scale then translate to a point: (b after a)(p).x = s.x * p.x + t.x exactly
#[cfg(not(verif_skip_mat_then_is_swapped_compose_row0))]
#[kani::proof]
#[kani::unwind(6)]
fn mat_then_is_swapped_compose_row0() {
    let s = vec3(any_in(-1000.0, 1000.0), any_in(-1000.0, 1000.0), any_in(-1000.0, 1000.0));
    let t = vec3(any_in(-1000.0, 1000.0), any_in(-1000.0, 1000.0), any_in(-1000.0, 1000.0));
    let (a, b) = (scale(s), translate(t));
    let ab = a.then(&b);
    let ba = b.compose(&a);
    kani::cover!(true);
    let mut j = 0;
    while j < 4 {
        assert!(ab.0[0][j].to_bits() == ba.0[0][j].to_bits() || ab.0[0][j] == ba.0[0][j]);
        j += 1;
    }
    // scale first, then translate: row 0 is [s.x, 0, 0, t.x]; the swapped order would give [s.x, 0, 0, s.x * t.x]
    assert!(ab.0[0][0] == s.x() && ab.0[0][1] == 0.0 && ab.0[0][2] == 0.0 && ab.0[0][3] == t.x());
}

fn inverse_is_two_sided(m: &Mat4x4<RealToReal<3>>, tol: F) -> bool {
    let inv = m.inverse();
    let (l, r) = (inv.compose(m), m.compose(&inv));
    let mut ok = true;
    let mut i = 0;
    while i < 4 {
        let mut j = 0;
        while j < 4 {
            let e: F = if i == j { 1.0 } else { 0.0 };
            let (dl, dr) = (l.0[i][j] - e, r.0[i][j] - e);
            ok = ok && dl >= -tol && dl <= tol && dr >= -tol && dr <= tol;
            j += 1;
        }
        i += 1;
    }
    ok
}

macro_rules! inverse_harness {
    ($name:ident, $rows:expr, $tol:expr) => {
        #[kani::proof]
        #[kani::unwind(6)]
        fn $name() {
            let m: Mat4x4<RealToReal<3>> = Matrix::new($rows);
            kani::cover!(true);
            assert!(inverse_is_two_sided(&m, $tol));
        }
    };
}
// f32's cos(90 deg): the "zero" entries of a quarter turn built by rotate_*(degs(90.0))
const C90: F = -4.371139e-8;

// The inverse() obligations are bounded stand-ins on CONCRETE transforms (no symbolic input; every symbolic formulation of the
// Gauss-Jordan elimination timed out, DESIGN.md C09): each decides "inverse() does not panic and inverse ∘ m = m ∘ inverse = I"
// for one matrix, within 1e-6 per element (the property states no tolerance; where all intermediate values are dyadic the code's
// result is in fact exact, but the obligations do not pin that, so that another correct elimination order cannot raise an alarm).
// @ob props=C09 tier=quick kind=B cfg=core-std timeout=1200
// @fn Mat4x4::inverse ; Mat4x4::determinant ; Matrix::compose
// @bound one concrete transform: scale(-1, 2, 0.5) followed by translate(3, -5, 7) (negative determinant)
// @clause the inverse of a mirrored non-uniform scaling with translation exists (no panic although the determinant is negative) and composed with the original gives the identity in both orders (within 1e-6 per element)
inverse_harness!(mat_inverse_mirrored_scale_translate, [[-1.0, 0.0, 0.0, 3.0], [0.0, 2.0, 0.0, -5.0], [0.0, 0.0, 0.5, 7.0], [0.0, 0.0, 0.0, 1.0]], 1e-6);
// @ob props=C09 tier=quick kind=B cfg=core-std timeout=1200
// @fn Mat4x4::inverse ; Matrix::compose
// @bound one concrete transform: the uniform scaling by -2 (determinant -8)
// @clause the inverse of a negative uniform scaling exists and is two-sided (within 1e-6 per element)
inverse_harness!(mat_inverse_negative_uniform_scale, [[-2.0, 0.0, 0.0, 0.0], [0.0, -2.0, 0.0, 0.0], [0.0, 0.0, -2.0, 0.0], [0.0, 0.0, 0.0, 1.0]], 1e-6);
// @ob props=C09 tier=quick kind=B cfg=core-std timeout=1200
// @fn Mat4x4::inverse ; Matrix::compose
// @bound one concrete transform: the reflection swapping x and y, followed by translate(1, 2, 3) (determinant -1; needs a row exchange)
// @clause the inverse of an axis-swapping reflection with translation exists and is two-sided (within 1e-6 per element)
inverse_harness!(mat_inverse_axis_swap_reflection, [[0.0, 1.0, 0.0, 1.0], [1.0, 0.0, 0.0, 2.0], [0.0, 0.0, 1.0, 3.0], [0.0, 0.0, 0.0, 1.0]], 1e-6);
// @ob props=C09 tier=quick kind=B cfg=core-std timeout=1200
// @fn Mat4x4::inverse ; Matrix::compose
// @bound one concrete transform: the cyclic axis permutation x->y->z->x (two row exchanges)
// @clause the inverse of a cyclic axis permutation exists and is two-sided (within 1e-6 per element)
inverse_harness!(mat_inverse_cyclic_permutation, [[0.0, 0.0, 1.0, 0.0], [1.0, 0.0, 0.0, 0.0], [0.0, 1.0, 0.0, 0.0], [0.0, 0.0, 0.0, 1.0]], 1e-6);
// @ob props=C09 tier=quick kind=B cfg=core-std timeout=1200
// @fn Mat4x4::inverse ; Matrix::compose
// @bound one concrete transform: the integer shear x += 2y, y += 3z
// @clause the inverse of an integer shear exists and is two-sided (within 1e-6 per element)
inverse_harness!(mat_inverse_integer_shear, [[1.0, 2.0, 0.0, 0.0], [0.0, 1.0, 3.0, 0.0], [0.0, 0.0, 1.0, 0.0], [0.0, 0.0, 0.0, 1.0]], 1e-6);
// @ob props=C09 tier=quick kind=B cfg=core-std timeout=1200
// @fn Mat4x4::inverse ; Matrix::compose
// @bound one concrete transform: the quarter turn about z as rotate_z(degs(90.0)) produces it in f32 (diagonal -4.371139e-8 instead of 0: a tiny non-zero pivot, condition number 1)
// @clause the inverse of a well-conditioned transform whose elimination meets a tiny non-zero diagonal element is still two-sided within 1e-6 per element (partial pivoting; pivoting on the first non-zero element loses all accuracy here)
inverse_harness!(mat_inverse_quarter_turn_z, [[C90, -1.0, 0.0, 0.0], [1.0, C90, 0.0, 0.0], [0.0, 0.0, 1.0, 0.0], [0.0, 0.0, 0.0, 1.0]], 1e-6);
// @ob props=C09 tier=quick kind=B cfg=core-std timeout=1200
// @fn Mat4x4::inverse ; Matrix::compose
// @bound one concrete transform: the f32 quarter turn about y, followed by translate(3, -5, 7)
// @clause the same for a quarter turn about y with a translation part
inverse_harness!(mat_inverse_quarter_turn_y, [[C90, 0.0, 1.0, 3.0], [0.0, 1.0, 0.0, -5.0], [-1.0, 0.0, C90, 7.0], [0.0, 0.0, 0.0, 1.0]], 1e-6);

// @ob props=C09 tier=thorough kind=B cfg=core-std timeout=3600
// @fn Mat4x4::inverse ; Mat4x4::determinant ; Matrix::compose
// @bound linear part fixed to the mirrored scaling diag(-1, 2, 0.5); complete in the translation (every t with |t_i| <= 1e6)
// @clause for EVERY translation part the inverse of "mirrored scaling, then translate(t)" exists (negative determinant, no panic) and composes with the original to the identity in both orders, exactly up to 1e-30 per element (all intermediate products are by powers of two; only halving a subnormal component rounds)
#[cfg(not(verif_skip_mat_inverse_translation_family))]
#[kani::proof]
#[kani::unwind(6)]
fn mat_inverse_translation_family() {
    let (tx, ty, tz) = (any_in(-1.0e6, 1.0e6), any_in(-1.0e6, 1.0e6), any_in(-1.0e6, 1.0e6));
    let m: Mat4x4<RealToReal<3>> = Matrix::new([[-1.0, 0.0, 0.0, tx], [0.0, 2.0, 0.0, ty], [0.0, 0.0, 0.5, tz], [0.0, 0.0, 0.0, 1.0]]);
    kani::cover!(tx > 1.0 && ty < -1.0);
    // 1e-30, not 0: halving a subnormal translation component rounds, so m * inverse can be off by one subnormal ulp there
    assert!(inverse_is_two_sided(&m, 1e-30));
}

// @ob props=C09 tier=thorough kind=B cfg=core-std timeout=3600
// @fn Mat4x4::inverse ; Mat4x4::determinant ; Matrix::compose
// @bound linear part fixed to the reflection that swaps x and y (determinant -1, needs a row exchange); complete in the translation (every t with |t_i| <= 1e6)
// @clause for EVERY translation part the inverse of "swap x and y, then translate(t)" exists and composes with the original to exactly the identity in both orders
#[cfg(not(verif_skip_mat_inverse_translation_family_swap))]
#[kani::proof]
#[kani::unwind(6)]
fn mat_inverse_translation_family_swap() {
    let (tx, ty, tz) = (any_in(-1.0e6, 1.0e6), any_in(-1.0e6, 1.0e6), any_in(-1.0e6, 1.0e6));
    let m: Mat4x4<RealToReal<3>> = Matrix::new([[0.0, 1.0, 0.0, tx], [1.0, 0.0, 0.0, ty], [0.0, 0.0, 1.0, tz], [0.0, 0.0, 0.0, 1.0]]);
    kani::cover!(tx > 1.0 && ty < -1.0);
    assert!(inverse_is_two_sided(&m, 0.0));
}

include!("gen/dispatch_mat.rs");
