// Harness module for core/src/render/cam.rs (child of `render::cam`, cfg(kani) only).
// @module render::cam::verif_kani
#![allow(unused_imports)]
use super::*;
use crate::math::mat::viewport as viewport_matrix;
use crate::math::vec3;
type F = core::primitive::f32;

fn same_matrix(a: &Mat4x4<NdcToScreen>, b: &Mat4x4<NdcToScreen>) -> bool {
    let mut ok = true;
    let mut i = 0;
    while i < 4 {
        let mut j = 0;
        while j < 4 {
            ok = ok && a.0[i][j] == b.0[i][j];
            j += 1;
        }
        i += 1;
    }
    ok
}

// @ob props=C08,C02 tier=quick kind=P cfg=core-std timeout=900
// @fn Camera::new ; Camera::viewport ; Rect::intersect
// @clause a camera restricts drawing to the intersection of the requested viewport with its frame: for every frame up to 4096^2 and every non-inverted request (corners up to 8192, any side possibly unbounded) that starts inside or on the edge of the frame, viewport() never reaches unreachable!(), dims become the intersection's extents, the NDC->screen matrix is the viewport matrix of the intersection, and the intersection lies inside the frame; Camera::new covers the whole frame
#[cfg(not(verif_skip_cam_viewport_is_intersection))]
#[kani::proof]
#[kani::unwind(6)]
fn cam_viewport_is_intersection() {
    let (w, h): (u32, u32) = (kani::any(), kani::any());
    kani::assume(w <= 4096 && h <= 4096);
    let cam = Camera::new((w, h));
    assert!(cam.dims == (w, h) && same_matrix(&cam.viewport, &viewport_matrix(pt2(0, 0)..pt2(w, h))));
    let req = crate::util::rect::Rect::<u32> { left: kani::any(), top: kani::any(), right: kani::any(), bottom: kani::any() };
    let (l0, t0) = (req.left.unwrap_or(0), req.top.unwrap_or(0));
    let (r0, b0) = (req.right.unwrap_or(u32::MAX), req.bottom.unwrap_or(u32::MAX));
    kani::assume(l0 <= 8192 && t0 <= 8192 && (req.right.is_none() || r0 <= 8192) && (req.bottom.is_none() || b0 <= 8192));
    // non-inverted, and overlapping or touching the frame
    kani::assume(l0 <= r0 && t0 <= b0 && l0 <= w && t0 <= h);
    let c2 = cam.viewport(req);
    let (l, t, r, b) = (l0, t0, if r0 < w { r0 } else { w }, if b0 < h { b0 } else { h });
    kani::cover!(r0 > w && l0 > 0);
    assert!(l <= r && r <= w && t <= b && b <= h);
    assert!(c2.dims == (r - l, b - t));
    assert!(same_matrix(&c2.viewport, &viewport_matrix(pt2(l, t)..pt2(r, b))));
}

// @ob props=C08 tier=quick kind=B cfg=core-std timeout=900
// @fn Camera::perspective ; Camera::orthographic
// @bound viewport sizes {640x480, 4x3, 3x4, 1x1, 1x4096}, focal ratio 1.5, depth range 0.5..50 (concrete, so the reference matrix is a constant); any prior sub-viewport request
// @clause Camera::perspective builds the projection with aspect ratio width/height of its CURRENT viewport dims (after a viewport() call, not of the frame), same focal ratio and depth range; Camera::orthographic installs the orthographic matrix of the given box; neither touches dims or the viewport matrix
#[cfg(not(verif_skip_cam_projection_uses_viewport_aspect))]
#[kani::proof]
#[kani::unwind(6)]
fn cam_projection_uses_viewport_aspect() {
    let k: u8 = kani::any();
    let (w, h): (u32, u32) = match k % 5 {
        0 => (640, 480),
        1 => (4, 3),
        2 => (3, 4),
        3 => (1, 1),
        _ => (1, 4096),
    };
    // a frame twice as wide: the sub-viewport (0..w, 0..h) has a different aspect than the frame
    let cam = Camera::new((2 * w, h)).viewport((0..w, 0..h)).perspective(1.5, 0.5..50.0);
    let want = perspective(1.5, w as F / h as F, 0.5..50.0);
    kani::cover!(k % 5 == 2);
    let mut i = 0;
    while i < 4 {
        let mut j = 0;
        while j < 4 {
            assert!(cam.project.0[i][j] == want.0[i][j]);
            j += 1;
        }
        i += 1;
    }
    assert!(cam.dims == (w, h) && same_matrix(&cam.viewport, &viewport_matrix(pt2(0, 0)..pt2(w, h))));
    let lo = crate::math::pt3(-1.0, -2.0, 1.0);
    let hi = crate::math::pt3(3.0, 2.0, 9.0);
    let oc = Camera::new((w, h)).orthographic(lo..hi);
    let ow = orthographic(lo, hi);
    assert!(oc.project.0[0][0] == ow.0[0][0] && oc.project.0[1][3] == ow.0[1][3] && oc.project.0[2][2] == ow.0[2][2] && oc.dims == (w, h));
}

// @ob props=C08 tier=quick kind=P cfg=core-std timeout=900
// @fn Camera::mode ; Camera::viewport ; <Mat4x4<WorldToView> as Mode>::world_to_view
// @clause composing a camera: attaching a movement mode changes nothing else -- for every frame up to 4096^2 and every non-inverted viewport request starting inside the frame, .mode(m) keeps dims, the projection matrix and the NDC->screen matrix of the (possibly offset) viewport bit for bit, and a matrix mode returns itself as the world-to-view transform
#[cfg(not(verif_skip_cam_mode_keeps_camera))]
#[kani::proof]
#[kani::unwind(6)]
fn cam_mode_keeps_camera() {
    let (w, h): (u32, u32) = (kani::any(), kani::any());
    kani::assume(w <= 4096 && h <= 4096);
    let (l, t, r, b): (u32, u32, u32, u32) = (kani::any(), kani::any(), kani::any(), kani::any());
    kani::assume(l <= r && t <= b && l <= w && t <= h && r <= 8192 && b <= 8192);
    let c2 = Camera::new((w, h)).viewport((l..r, t..b)).orthographic(crate::math::pt3(-1.0, -2.0, 1.0)..crate::math::pt3(3.0, 2.0, 9.0));
    let els: [[F; 4]; 4] = kani::any();
    let m: Mat4x4<WorldToView> = Mat4x4::new(els);
    let c3 = c2.mode(m);
    kani::cover!(l > 0 && t > 0 && r < w);
    assert!(c3.dims == c2.dims && same_matrix(&c3.viewport, &c2.viewport));
    let wv = c3.mode.world_to_view();
    let mut i = 0;
    while i < 4 {
        let mut j = 0;
        while j < 4 {
            assert!(c3.project.0[i][j].to_bits() == c2.project.0[i][j].to_bits());
            assert!(wv.0[i][j].to_bits() == els[i][j].to_bits());
            j += 1;
        }
        i += 1;
    }
}

include!("gen/dispatch_cam.rs");
