// Harness module for core/src/geom/mesh.rs (child of `geom::mesh`, cfg(kani) only).
// @module geom::mesh::verif_kani
#![allow(unused_imports)]
use super::*;
use crate::math::pt3;

fn any_tri(max: usize) -> Tri<usize> {
    let (a, b, c): (usize, usize, usize) = (kani::any(), kani::any(), kani::any());
    kani::assume(a <= max && b <= max && c <= max);
    Tri([a, b, c])
}

// @ob props=C14 tier=quick kind=B cfg=core-std timeout=1200
// @fn Mesh::new ; Builder::build ; Builder::push_faces ; Builder::push_verts
// @bound 2 faces, 1 to 3 vertices, indices up to 4
// @allow_panic Mesh::<.*>::new
// @clause a mesh can only be built from faces whose indices all refer to existing vertices: whenever Mesh::new / Builder::build return, every face index is < the vertex count, and faces and vertices are stored in the given order
#[cfg(not(verif_skip_mesh_new_rejects_dangling_indices))]
#[kani::proof]
#[kani::unwind(40)]
fn mesh_new_rejects_dangling_indices() {
    let nv: usize = kani::any();
    kani::assume(nv >= 1 && nv <= 3);
    let faces = [any_tri(4), any_tri(4)];
    let ok = |t: &Tri<usize>| t.0[0] < nv && t.0[1] < nv && t.0[2] < nv;
    let all_ok = ok(&faces[0]) && ok(&faces[1]);
    kani::cover!(all_ok);
    kani::cover!(!all_ok);
    let verts = [(pt3(0.0, 0.0, 0.0), ()), (pt3(1.0, 0.0, 0.0), ()), (pt3(2.0, 0.0, 0.0), ())];
    let m = if kani::any() {
        let mut b: Builder<()> = Mesh::builder();
        b.push_verts(verts.into_iter().take(nv));
        b.push_faces([faces[0].0, faces[1].0]);
        b.build()
    } else {
        Mesh::new([Tri(faces[0].0), Tri(faces[1].0)], verts.into_iter().take(nv).map(|(p, a)| vertex(p.to(), a)))
    };
    assert!(all_ok);
    assert!(m.faces.len() == 2 && m.verts.len() == nv);
    assert!(m.faces[0].0 == faces[0].0 && m.faces[1].0 == faces[1].0);
    assert!(m.verts[nv - 1].pos.x() == (nv - 1) as f32);
}

// @ob props=C14 tier=quick kind=B cfg=core-std timeout=1200
// @fn Mesh::new ; Builder::build
// @bound at most 2 faces and at most 3 vertices
// @clause Mesh::new accepts every face list whose indices are all < the vertex count (it never rejects a valid mesh)
#[cfg(not(verif_skip_mesh_new_accepts_valid))]
#[kani::proof]
#[kani::unwind(12)]
fn mesh_new_accepts_valid() {
    let nv: usize = kani::any();
    kani::assume(nv >= 1 && nv <= 3);
    let faces = [any_tri(nv - 1), any_tri(nv - 1)];
    let verts = [vertex(pt3(0.0, 0.0, 0.0), ()), vertex(pt3(1.0, 0.0, 0.0), ()), vertex(pt3(2.0, 0.0, 0.0), ())];
    let m: Mesh<()> = Mesh::new(faces, verts.into_iter().take(nv));
    kani::cover!(nv == 3);
    assert!(m.faces.len() == 2 && m.verts.len() == nv);
}

include!("gen/dispatch_mesh.rs");
