// Harness module for core/src/render/raster.rs (child of `render::raster`, cfg(kani) only).
// @module render::raster::verif_kani
#![allow(unused_imports)]
use super::*;
use crate::math::point::pt3;
use crate::math::vary::{Vary, ZDiv};
use crate::math::vec::vec3;
type F = core::primitive::f32;

/// Precondition of the pixel rounding rule: a pixel coordinate that has a pixel index
/// (x >= -0.5, so that the rounded centre is >= 0.5 - 1) and is small enough for f32 to
/// resolve half pixels (|x| <= 2^22).
pub(crate) fn pix_range(x: F) -> bool {
    x >= -0.5 && x <= 4194304.0
}

fn is_int(x: F) -> bool {
    x == (x as i32) as F
}

/// Postcondition of round_up_to_half: the nearest pixel centre k+0.5 strictly to the right of x
/// (one ulp of slack because x + 0.5 is rounded, DESIGN 3a.1).
pub(crate) fn is_round_up_to_half(x: F, r: F) -> bool {
    let ax = if x < 0.0 { -x } else { x };
    r > x && r - 1.0 <= x + ax * 1.2e-7 && is_int(r - 0.5) && r >= 0.5
}

fn any_f(lo: F, hi: F) -> F {
    let x: F = kani::any();
    kani::assume(x >= lo && x <= hi);
    x
}

// @ob props=C02,C04,C20 tier=quick kind=P cfg=core-std,core-none,core-mm,core-libm timeout=600
// @fn round_up_to_half
// @clause contract of the pixel rounding rule in every float backend: for -0.5 <= x <= 2^22 the result r is a pixel centre (r - 0.5 integer, r >= 0.5) with r > x and r - 1 <= x (+1 ulp); a left edge at x therefore starts at the first centre strictly right of x and a right edge at x ends just before it
#[cfg(not(verif_skip_raster_round_up_to_half_contract))]
#[kani::proof_for_contract(round_up_to_half)]
fn raster_round_up_to_half_contract() {
    let x: F = kani::any();
    let r = round_up_to_half(x);
    assert!(is_round_up_to_half(x, r)); // explicit, for native replay (reached only under the precondition)
}

// @ob props=C02,C04 tier=quick kind=P cfg=core-std,core-none timeout=600
// @fn round_up_to_half
// @clause consequences used by the in-bounds argument: for every width W < 2^22, an edge at x <= W + 0.25 maps to an exclusive end index <= W; the cast to usize is the floor; the rule is monotone (x <= x' => r <= r'), which makes the end of a right edge at x equal the start of a left edge at the same x and spans of adjacent triangles disjoint
#[cfg(not(verif_skip_raster_rounding_consequences))]
#[kani::proof]
fn raster_rounding_consequences() {
    let x = any_f(-0.5, 4194304.0);
    let r = round_up_to_half(x);
    let w: u32 = kani::any();
    kani::assume(w < 4194304);
    kani::cover!(x > 100.25 && x < 100.75);
    // an edge inside the viewport (x <= W, a quarter pixel of slack) never yields an end index beyond W.
    // (x < W + 0.5 would be too strong: W + 0.5 - ulp rounds up to W + 1 when 0.5 is added, DESIGN 3a.1.)
    if x <= w as F + 0.25 {
        assert!((r as usize) <= w as usize);
    }
    assert!((r as usize) as F == r - 0.5);
    let x2 = any_f(-0.5, 4194304.0);
    if x <= x2 {
        assert!(r <= round_up_to_half(x2));
    }
}

fn any_step() -> (crate::math::Vec3<Screen>, F) {
    (vec3(any_f(-100.0, 100.0), 1.0, any_f(-1.0, 1.0)), any_f(-1.0, 1.0))
}

// @ob props=C02,C04,C05 tier=quick kind=P cfg=core-std timeout=1800
// @fn <ScanlineIter<V> as Iterator>::next ; round_up_to_half ; <Iter<T> as Iterator>::next
// @clause one step of the scanline iterator (V = f32, coordinates in [0,1024], any n > 0): emits row floor(y) and advances y by exactly 1 and n by -1; xs.start/xs.end are the rounding-rule images of the current left/right x (so xs.start..xs.end are exactly the centres in (x_left, x_right]); the varying iterator yields exactly max(0, end-start) items; the first fragment sits on the pixel centre xs.start+0.5 (within 1e-3); equal left and right x give an empty span
#[cfg(not(verif_skip_raster_next_step))]
#[kani::proof]
fn raster_next_step() {
    let y = any_f(0.5, 1024.5);
    kani::assume(is_int(y - 0.5));
    let (xl, xr, z, a) = (any_f(0.0, 1024.0), any_f(0.0, 1024.0), any_f(0.001, 1.0), any_f(-1.0, 1.0));
    let dldy = any_step();
    let dvdx: (crate::math::Vec3<Screen>, F) = (vec3(1.0, 0.0, any_f(-1.0, 1.0)), any_f(-1.0, 1.0));
    let n: u32 = kani::any();
    kani::assume(n > 0);
    let left: Varyings<F> = (pt3(xl, y, z), a);
    let mut it: ScanlineIter<F> = ScanlineIter {
        y,
        left: left.vary(dldy, None),
        right: xr.vary(any_f(-100.0, 100.0), None),
        dv_dx: dvdx,
        n,
    };
    let sl = it.next().unwrap();
    kani::cover!(xl + 2.0 < xr);
    kani::cover!(xl > xr);
    assert!(sl.y == y as usize && (sl.y as F) == y - 0.5);
    assert!(it.y == y + 1.0 && it.n == n - 1);
    let x0 = sl.xs.start as F + 0.5;
    let x1 = sl.xs.end as F + 0.5;
    assert!(is_round_up_to_half(xl, x0));
    assert!(is_round_up_to_half(xr, x1));
    if sl.xs.end >= sl.xs.start {
        assert!(sl.vs.n == Some((sl.xs.end - sl.xs.start) as u32));
    } else {
        assert!(sl.vs.n == Some(0));
    }
    if xl == xr {
        assert!(sl.xs.start == sl.xs.end);
    }
    assert!((sl.vs.val.0.x() - x0).abs() <= 1e-3);
    assert!(sl.vs.val.0.y() == y);
}

// @ob props=C02,C04 tier=quick kind=P cfg=core-std timeout=1800
// @fn <ScanlineIter<V> as Iterator>::next
// @clause modular: against the CONTRACT of round_up_to_half alone (its body replaced by the contract), one step of the scanline iterator yields a span whose ends are pixel centres with start-centre in (x_left, x_left+1] and end-centre in (x_right, x_right+1], i.e. exactly the centres in (x_left, x_right]; both calls satisfy the contract's precondition for coordinates in [0, 2^22]
#[cfg(not(verif_skip_raster_next_step_modular))]
#[kani::proof]
#[kani::stub_verified(round_up_to_half)]
fn raster_next_step_modular() {
    let y = any_f(0.5, 1024.5);
    kani::assume(is_int(y - 0.5));
    let (xl, xr) = (any_f(0.0, 4194304.0), any_f(0.0, 4194304.0));
    let left: Varyings<()> = (pt3(xl, y, 1.0), ());
    let mut it: ScanlineIter<()> = ScanlineIter {
        y,
        left: left.vary((vec3(any_f(-100.0, 100.0), 1.0, 0.0), ()), None),
        right: xr.vary(any_f(-100.0, 100.0), None),
        dv_dx: (vec3(1.0, 0.0, 0.0), ()),
        n: 1,
    };
    let sl = it.next().unwrap();
    kani::cover!(xl + 2.0 < xr);
    let (x0, x1) = (sl.xs.start as F + 0.5, sl.xs.end as F + 0.5);
    assert!(is_round_up_to_half(xl, x0) && is_round_up_to_half(xr, x1));
    assert!(sl.y as F == y - 0.5 && it.n == 0 && it.y == y + 1.0);
    if sl.xs.end >= sl.xs.start {
        assert!(sl.vs.n == Some((sl.xs.end - sl.xs.start) as u32));
    }
}

// @ob props=C02,C04 tier=quick kind=P cfg=core-std timeout=600
// @fn <ScanlineIter<V> as Iterator>::next
// @clause the scanline iterator returns None exactly when n = 0 and then changes nothing
#[cfg(not(verif_skip_raster_next_exhausted))]
#[kani::proof]
fn raster_next_exhausted() {
    let y = any_f(0.5, 1024.5);
    let left: Varyings<()> = (pt3(any_f(0.0, 1024.0), y, 1.0), ());
    let mut it: ScanlineIter<()> = ScanlineIter {
        y,
        left: left.vary((vec3(any_f(-9.0, 9.0), 1.0, 0.0), ()), None),
        right: any_f(0.0, 1024.0).vary(any_f(-9.0, 9.0), None),
        dv_dx: (vec3(1.0, 0.0, 0.0), ()),
        n: 0,
    };
    kani::cover!(true);
    assert!(it.next().is_none());
    assert!(it.y == y && it.n == 0);
}

// @ob props=C02,C04,C05 tier=quick kind=P cfg=core-std timeout=1800
// @fn scan ; round_up_to_half
// @clause scan set-up for every trapezoid with coordinates in [0,64] and height >= 0.01 (V = f32): the first row is the first pixel-centre row strictly below y0; n is the number of centre rows in (y0, y1]
#[cfg(not(verif_skip_raster_scan_setup))]
#[kani::proof]
fn raster_scan_setup() {
    let (y0, y1) = (any_f(0.0, 64.0), any_f(0.0, 64.0));
    kani::assume(y1 - y0 >= 0.01);
    let (lx0, lx1, rx0, rx1) = (any_f(0.0, 64.0), any_f(0.0, 64.0), any_f(0.0, 64.0), any_f(0.0, 64.0));
    let p = |x, y, a| -> Varyings<F> { (pt3(x, y, 1.0), a) };
    let (l0, l1) = (p(lx0, y0, any_f(-1.0, 1.0)), p(lx1, y1, any_f(-1.0, 1.0)));
    let (r0, r1) = (p(rx0, y0, any_f(-1.0, 1.0)), p(rx1, y1, any_f(-1.0, 1.0)));
    let it = scan(y0..y1, &l0..&l1, &r0..&r1);
    kani::cover!(it.n >= 2);
    kani::cover!(it.n == 0);
    assert!(is_round_up_to_half(y0, it.y));
    let last = it.y + it.n as F - 1.0;
    if it.n > 0 {
        assert!(last <= y1 + 1e-5 && last + 1.0 > y1);
    } else {
        assert!(it.y > y1);
    }
}

// Tried and dropped: the y pre-step of scan() (left start point carries the first row's y within 1e-4, per-row step advances y by 1
// within 1e-4) for every trapezoid: no verdict in 33 min (a chain of symbolic float products, limit L1).

// @ob props=C02,C04 tier=quick kind=P cfg=core-std timeout=600
// @fn scan
// @clause an empty or inverted row range (y1 <= y0, including the zero-height half of a flat-topped triangle, where the slopes are infinite or NaN) yields no scanline: the row count saturates to 0
#[cfg(not(verif_skip_raster_scan_empty_range))]
#[kani::proof]
fn raster_scan_empty_range() {
    let (y0, y1) = (any_f(0.0, 1024.0), any_f(0.0, 1024.0));
    kani::assume(y1 <= y0);
    let p = |x, y| -> Varyings<()> { (pt3(x, y, 1.0), ()) };
    let (l0, l1) = (p(any_f(0.0, 64.0), y0), p(any_f(0.0, 64.0), y1));
    let (r0, r1) = (p(any_f(0.0, 64.0), y0), p(any_f(0.0, 64.0), y1));
    let mut it = scan(y0..y1, &l0..&l1, &r0..&r1);
    kani::cover!(y0 == y1);
    assert!(it.n == 0);
    assert!(it.next().is_none());
}

// @ob props=C05 tier=quick kind=P cfg=core-std timeout=1800 nan_ok=1
// @fn scan
// @clause for every trapezoid with coordinates in [0,64], height >= 0.01 and at least one base wider than 0.01 (so the area is far above 1e-6 px^2) the precomputed horizontal gradient dv/dx is finite and its position part advances x by 1 (within 1e-3), and the start values and per-row steps are finite
#[cfg(not(verif_skip_raster_scan_gradient_finite))]
#[kani::proof]
fn raster_scan_gradient_finite() {
    let (y0, y1) = (any_f(0.0, 64.0), any_f(0.0, 64.0));
    kani::assume(y1 - y0 >= 0.01);
    let (lx0, lx1, rx0, rx1) = (any_f(0.0, 64.0), any_f(0.0, 64.0), any_f(0.0, 64.0), any_f(0.0, 64.0));
    kani::assume(lx0 <= rx0 && lx1 <= rx1);
    kani::assume(rx0 - lx0 >= 0.01 || rx1 - lx1 >= 0.01);
    let p = |x, y, a| -> Varyings<F> { (pt3(x, y, any_f(0.001, 1.0)), a) };
    let (l0, l1) = (p(lx0, y0, any_f(-1.0, 1.0)), p(lx1, y1, any_f(-1.0, 1.0)));
    let (r0, r1) = (p(rx0, y0, any_f(-1.0, 1.0)), p(rx1, y1, any_f(-1.0, 1.0)));
    let it = scan(y0..y1, &l0..&l1, &r0..&r1);
    kani::cover!(lx1 == rx1 && y1 - y0 == 1.0);
    assert!(it.dv_dx.0.x().is_finite() && it.dv_dx.0.z().is_finite() && it.dv_dx.1.is_finite());
    assert!((it.dv_dx.0.x() - 1.0).abs() <= 1e-3);
    assert!(it.left.val.0.x().is_finite() && it.left.val.0.z().is_finite() && it.left.val.1.is_finite());
    assert!(it.left.step.0.x().is_finite() && it.left.step.1.is_finite() && it.right.val.is_finite() && it.right.step.is_finite());
}

/// Divisors for which x / z == x * (1/z) exactly (powers of two), so that the spec needs no second divider circuit (DESIGN 3a.7).
fn any_pow2() -> (F, F) {
    let k: u8 = kani::any();
    kani::assume(k < 6);
    match k {
        0 => (0.25, 4.0),
        1 => (0.5, 2.0),
        2 => (1.0, 1.0),
        3 => (2.0, 0.5),
        4 => (4.0, 0.25),
        _ => (8.0, 0.125),
    }
}

// @ob props=C05 tier=quick kind=B cfg=core-std timeout=900
// @fn <f32 as ZDiv>::z_div ; <(T,U) as ZDiv>::z_div ; <Vector as ZDiv>::z_div ; <Point as ZDiv>::z_div ; <Color as ZDiv>::z_div
// @bound divisor z in {1/4, 1/2, 1, 2, 4, 8} (powers of two, where the quotient equals an exact product); complete in the components (all f32 bit patterns)
// @clause perspective division: z_div divides every float component by z, bit for bit, for scalars, nested tuples, vectors, points and float colours, component order preserved; () is unchanged
#[cfg(not(verif_skip_raster_zdiv_impls))]
#[kani::proof]
#[kani::unwind(5)]
fn raster_zdiv_impls() {
    let (a, b, c): (F, F, F) = (kani::any(), kani::any(), kani::any());
    let (z, inv) = any_pow2();
    let same = |x: F, y: F| x.to_bits() == y.to_bits() || (x.is_nan() && y.is_nan());
    kani::cover!(z == 4.0 && a > 1.0);
    assert!(same(a.z_div(z), a * inv));
    let t = (a, (b, c)).z_div(z);
    assert!(same(t.0, a * inv) && same(t.1 .0, b * inv) && same(t.1 .1, c * inv));
    let v: crate::math::Vec3 = vec3(a, b, c);
    let vd = v.z_div(z);
    assert!(same(vd.x(), a * inv) && same(vd.y(), b * inv) && same(vd.z(), c * inv));
    let p: crate::math::Point2 = crate::math::pt2(a, b);
    let pd = p.z_div(z);
    assert!(same(pd.x(), a * inv) && same(pd.y(), b * inv));
    let col = crate::math::color::rgb(a, b, c).z_div(z);
    assert!(same(col.r(), a * inv) && same(col.g(), b * inv) && same(col.b(), c * inv));
    ().z_div(z);
}

// Tried and dropped: scalar z_div against a second divider circuit for ALL f32 pairs (`a.z_div(z) == a / z`): no verdict in 33 min
// (two structurally identical float dividers are not merged by the SAT back end, DESIGN 3a.7). The power-of-two family above is
// the strongest form that is decided.

// @ob props=C05 tier=quick kind=B cfg=core-std timeout=900
// @fn Scanline::fragments
// @bound spans of at most 3 fragments; reciprocal depth constant along the span, z in {1/4, 1/2, 1, 2, 4, 8}
// @clause every fragment keeps the interpolated position untouched and carries var.z_div(pos.z), i.e. the varying divided by the interpolated reciprocal depth; positions advance by exactly the stored step; the fragment count equals the span length
#[cfg(not(verif_skip_raster_fragments_zdiv))]
#[kani::proof]
#[kani::unwind(5)]
fn raster_fragments_zdiv() {
    let (x0, a, da) = (any_f(0.5, 1024.5), any_f(-8.0, 8.0), any_f(-1.0, 1.0));
    // reciprocal depth constant along the span and a power of two: the quotient is then an exact product
    let (z, inv) = any_pow2();
    let dz = 0.0;
    let n: u32 = kani::any();
    kani::assume(n <= 3);
    let mut sl: Scanline<F> = Scanline {
        y: 7,
        xs: 0..n as usize,
        vs: (pt3(x0, 7.5, z), a).vary((vec3(1.0, 0.0, dz), da), Some(n)),
    };
    let mut k = 0u32;
    let (mut px, mut pz, mut pa) = (x0, z, a);
    for f in sl.fragments() {
        assert!(f.pos.x() == px && f.pos.y() == 7.5 && f.pos.z() == pz);
        assert!(f.var.to_bits() == (pa * inv).to_bits());
        px += 1.0;
        pz += dz;
        pa += da;
        k += 1;
    }
    kani::cover!(k == 3);
    assert!(k == n);
}

// @ob props=C05 tier=quick kind=B cfg=core-std timeout=900
// @fn Scanline::fragments
// @bound spans of 2 fragments whose reciprocal depths are 2^-k and 2^-(k-1), k in {1, 2, 6, 12, 20} (a varying depth, from near to very distant geometry, with exact quotients)
// @clause each fragment is divided by ITS OWN interpolated reciprocal depth, not by the span's first or last one, however small the depth step is
#[cfg(not(verif_skip_raster_fragments_own_depth))]
#[kani::proof]
#[kani::unwind(5)]
fn raster_fragments_own_depth() {
    let (a, da) = (any_f(-8.0, 8.0), any_f(-1.0, 1.0));
    let k: u8 = kani::any();
    let (z0, inv0, inv1): (F, F, F) = match k % 5 {
        0 => (0.5, 2.0, 1.0),
        1 => (0.25, 4.0, 2.0),
        2 => (0.015625, 64.0, 32.0),
        3 => (0.000244140625, 4096.0, 2048.0),
        _ => (0.00000095367431640625, 1048576.0, 524288.0),
    };
    let mut sl: Scanline<F> = Scanline {
        y: 3,
        xs: 10..12,
        vs: (pt3(10.5, 3.5, z0), a).vary((vec3(1.0, 0.0, z0), da), Some(2)),
    };
    let mut it = sl.fragments();
    let (f0, f1) = (it.next().unwrap(), it.next().unwrap());
    kani::cover!(k % 5 == 4);
    assert!(f0.pos.z() == z0 && f1.pos.z() == z0 + z0);
    assert!(f0.var.to_bits() == (a * inv0).to_bits());
    assert!(f1.var.to_bits() == ((a + da) * inv1).to_bits());
    assert!(it.next().is_none());
}

// @ob props=C04,C02 tier=quick kind=P cfg=core-std timeout=1800
// @fn scan ; <ScanlineIter<V> as Iterator>::next
// @clause through the public API only: iterating scan() over a vertical-sided trapezoid with ANY float y-range inside [0,4] emits exactly the rows whose centre lies in (y0, y1] (centres within 0.001 px of y0 or y1 exempt, as in the property), each once and in increasing order, each with the span of centres in (x_left, x_right]; nothing for an empty or inverted range
#[cfg(not(verif_skip_raster_scan_rows_public_api))]
#[kani::proof]
#[kani::unwind(7)]
fn raster_scan_rows_public_api() {
    let (y0, y1) = (any_f(0.0, 4.0), any_f(0.0, 4.0));
    let p = |x, y| -> Varyings<()> { (pt3(x, y, 1.0), ()) };
    let (l0, l1, r0, r1) = (p(1.0, y0), p(1.0, y1), p(3.0, y0), p(3.0, y1));
    let mut rows = [0u8; 4];
    let mut last: i32 = -1;
    for sl in scan(y0..y1, &l0..&l1, &r0..&r1) {
        assert!(sl.y < 4 && sl.y as i32 > last);
        last = sl.y as i32;
        rows[sl.y] += 1;
        assert!(sl.xs.start == 1 && sl.xs.end == 3);
    }
    kani::cover!(rows[1] == 1 && rows[2] == 1);
    kani::cover!(y1 < y0);
    let mut k = 0;
    while k < 4 {
        let c = k as F + 0.5;
        // the property's tolerance band: a centre within 0.001 px of the top or bottom edge may go either way
        // (a y0 one ulp below a centre is rounded onto it by `y0 + 0.5`, DESIGN 3a.1)
        if y0 + 0.001 < c && c <= y1 - 0.001 {
            assert!(rows[k] == 1);
        } else if c < y0 - 0.001 || c > y1 + 0.001 {
            assert!(rows[k] == 0);
        } else {
            assert!(rows[k] <= 1);
        }
        k += 1;
    }
}

// @ob props=C04,C02 tier=quick kind=P cfg=core-std timeout=1800
// @fn scan ; <ScanlineIter<V> as Iterator>::next
// @clause through the public API only: two vertically adjacent trapezoids sharing the edge y = ym (as the two halves of a triangle do) partition the rows: every centre in (y0, y1] away from the outer edges is emitted exactly once by the pair, in particular a centre lying exactly on or next to the shared edge is neither lost nor drawn twice; for any float y0 <= ym <= y1 in [0,3]
#[cfg(not(verif_skip_raster_adjacent_scans_partition_rows))]
#[kani::proof]
#[kani::unwind(6)]
fn raster_adjacent_scans_partition_rows() {
    let (y0, ym, y1) = (any_f(0.0, 3.0), any_f(0.0, 3.0), any_f(0.0, 3.0));
    kani::assume(y0 <= ym && ym <= y1);
    let p = |x, y| -> Varyings<()> { (pt3(x, y, 1.0), ()) };
    let mut rows = [0u8; 3];
    let mut last: i32 = -1;
    let (a0, a1, b0, b1) = (p(1.0, y0), p(1.0, ym), p(3.0, y0), p(3.0, ym));
    for sl in scan(y0..ym, &a0..&a1, &b0..&b1) {
        assert!(sl.y < 3 && sl.y as i32 > last);
        last = sl.y as i32;
        rows[sl.y] += 1;
    }
    let (c0, c1, d0, d1) = (p(1.0, ym), p(1.0, y1), p(3.0, ym), p(3.0, y1));
    for sl in scan(ym..y1, &c0..&c1, &d0..&d1) {
        assert!(sl.y < 3 && sl.y as i32 > last);
        last = sl.y as i32;
        rows[sl.y] += 1;
    }
    kani::cover!(ym == 1.5 && rows[1] == 1);
    kani::cover!(rows[0] == 1 && rows[2] == 1);
    let mut k = 0;
    while k < 3 {
        let c = k as F + 0.5;
        if y0 + 0.001 < c && c <= y1 - 0.001 {
            assert!(rows[k] == 1);
        } else if c < y0 - 0.001 || c > y1 + 0.001 {
            assert!(rows[k] == 0);
        } else {
            assert!(rows[k] <= 1);
        }
        k += 1;
    }
}

// @ob props=C04,C02 tier=quick kind=B cfg=core-std timeout=2400
// @fn tri_fill ; scan ; <ScanlineIter<V> as Iterator>::next
// @bound thin triangles inside one pixel row that straddle its centre line: two vertices on y = k + 1/4, one on y = k + 3/4 (or mirrored), x coordinates integers 0..3, k in {0, 1}; every vertex order; 3x2 pixel grid, V = ()
// @clause sub-pixel-high triangles are not lost: against an exact integer edge-function oracle (coordinates times 4) every centre strictly inside is covered exactly once, every centre strictly outside and off the edges is not covered, rows arrive in increasing order inside the grid and the x-range length equals the fragment count
#[cfg(not(verif_skip_raster_tri_fill_thin_rows))]
#[kani::proof]
#[kani::unwind(8)]
fn raster_tri_fill_thin_rows() {
    let xs: [u8; 3] = kani::any();
    kani::assume(xs[0] <= 3 && xs[1] <= 3 && xs[2] <= 3);
    let k: u8 = kani::any();
    kani::assume(k <= 1);
    let odd: u8 = kani::any(); // which vertex sits on the other side of the centre line
    kani::assume(odd < 3);
    let up: bool = kani::any();
    // y in quarter pixels: 4k+1 or 4k+3
    let yq = |i: u8| -> i32 { 4 * k as i32 + if (i == odd) == up { 1 } else { 3 } };
    let vtx = |i: u8| crate::geom::vertex(pt3(xs[i as usize] as F, yq(i) as F * 0.25, 1.0), ());
    let mut cov = [[0u8; 3]; 2];
    let mut last_y: i32 = -1;
    let mut ok = true;
    tri_fill([vtx(0), vtx(1), vtx(2)], |sl: Scanline<()>| {
        ok = ok && (sl.y as i32) > last_y && sl.y < 2 && sl.xs.end <= 3;
        last_y = sl.y as i32;
        let len = if sl.xs.end >= sl.xs.start { sl.xs.end - sl.xs.start } else { 0 };
        ok = ok && sl.vs.n == Some(len as u32);
        let mut x = sl.xs.start;
        while x < sl.xs.end && x < 3 && sl.y < 2 {
            cov[sl.y][x] += 1;
            x += 1;
        }
    });
    kani::cover!(cov[1][1] == 1);
    let p = |i: u8| (4 * xs[i as usize] as i32, yq(i));
    let edge = |a: (i32, i32), b: (i32, i32), c: (i32, i32)| (b.0 - a.0) * (c.1 - a.1) - (b.1 - a.1) * (c.0 - a.0);
    let on_seg = |a: (i32, i32), b: (i32, i32), c: (i32, i32)| {
        edge(a, b, c) == 0 && c.0 >= a.0.min(b.0) && c.0 <= a.0.max(b.0) && c.1 >= a.1.min(b.1) && c.1 <= a.1.max(b.1)
    };
    let mut py = 0;
    while py < 2 {
        let mut px = 0;
        while px < 3 {
            let c = (4 * px as i32 + 2, 4 * py as i32 + 2);
            let (e0, e1, e2) = (edge(p(0), p(1), c), edge(p(1), p(2), c), edge(p(2), p(0), c));
            let exempt = on_seg(p(0), p(1), c) || on_seg(p(1), p(2), c) || on_seg(p(2), p(0), c);
            let inside = (e0 > 0 && e1 > 0 && e2 > 0) || (e0 < 0 && e1 < 0 && e2 < 0);
            if !exempt {
                ok = ok && cov[py][px] == if inside { 1 } else { 0 };
            }
            px += 1;
        }
        py += 1;
    }
    assert!(ok);
}

// @ob props=C04,C02 tier=thorough kind=B cfg=core-std timeout=7200
// @fn tri_fill ; scan ; <ScanlineIter<V> as Iterator>::next
// @bound every triangle (degenerate ones included, all 5^6 vertex triples, hence all vertex orders) on the half-pixel lattice [0,2]^2, 2x2 pixels, V = ()
// @clause coverage against an exact integer edge-function oracle: a pixel centre strictly inside the triangle is covered exactly once; a centre strictly outside and not on the segment of any edge is not covered; centres on an edge segment (distance 0, the only lattice points within the property's 0.001 px band) are exempt; scanlines arrive in strictly increasing y, stay inside the 2x2 grid, and their x-range length equals the fragment count; the verdict is symmetric in the vertex order
#[cfg(not(verif_skip_raster_tri_fill_lattice))]
#[kani::proof]
#[kani::unwind(8)]
fn raster_tri_fill_lattice() {
    let q: [u8; 6] = kani::any();
    let mut i = 0;
    while i < 6 {
        kani::assume(q[i] <= 4);
        i += 1;
    }
    let vtx = |k: usize| crate::geom::vertex(pt3(q[2 * k] as F * 0.5, q[2 * k + 1] as F * 0.5, 1.0), ());
    let mut cov = [[0u8; 2]; 2];
    let mut last_y: i32 = -1;
    let mut ok = true;
    tri_fill([vtx(0), vtx(1), vtx(2)], |sl: Scanline<()>| {
        ok = ok && (sl.y as i32) > last_y && sl.y < 2 && sl.xs.end <= 2;
        last_y = sl.y as i32;
        let len = if sl.xs.end >= sl.xs.start { sl.xs.end - sl.xs.start } else { 0 };
        ok = ok && sl.vs.n == Some(len as u32);
        let mut x = sl.xs.start;
        while x < sl.xs.end && x < 2 && sl.y < 2 {
            cov[sl.y][x] += 1;
            x += 1;
        }
    });
    kani::cover!(cov[0][0] == 1 && cov[1][1] == 1);
    // oracle in doubled integer coordinates: vertices q, pixel centre (2x+1, 2y+1)
    let p = |k: usize| (q[2 * k] as i32, q[2 * k + 1] as i32);
    let edge = |a: (i32, i32), b: (i32, i32), c: (i32, i32)| (b.0 - a.0) * (c.1 - a.1) - (b.1 - a.1) * (c.0 - a.0);
    let on_seg = |a: (i32, i32), b: (i32, i32), c: (i32, i32)| {
        edge(a, b, c) == 0 && c.0 >= a.0.min(b.0) && c.0 <= a.0.max(b.0) && c.1 >= a.1.min(b.1) && c.1 <= a.1.max(b.1)
    };
    let mut py = 0;
    while py < 2 {
        let mut px = 0;
        while px < 2 {
            let c = (2 * px as i32 + 1, 2 * py as i32 + 1);
            let (e0, e1, e2) = (edge(p(0), p(1), c), edge(p(1), p(2), c), edge(p(2), p(0), c));
            let exempt = on_seg(p(0), p(1), c) || on_seg(p(1), p(2), c) || on_seg(p(2), p(0), c);
            let inside = (e0 > 0 && e1 > 0 && e2 > 0) || (e0 < 0 && e1 < 0 && e2 < 0);
            if !exempt {
                ok = ok && cov[py][px] == if inside { 1 } else { 0 };
            }
            px += 1;
        }
        py += 1;
    }
    assert!(ok);
}

include!("gen/dispatch_raster.rs");
