// Runs the real Xorshift64::next_bits on the 64 basis states and on states given on the command line.
use retrofire_core::math::rand::Xorshift64;
fn main() {
    let args: Vec<u64> = std::env::args().skip(1).map(|a| a.parse().unwrap()).collect();
    if args.is_empty() {
        for i in 0..64 {
            let mut g = Xorshift64(1u64 << i);
            println!("{}", g.next_bits());
        }
    } else {
        for a in args {
            let mut g = Xorshift64(a);
            let r = g.next_bits();
            println!("{} {} {}", a, r, g.0);
        }
    }
}
