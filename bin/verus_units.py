"""Verus back end: mechanical extraction of real function text from /repo into a Verus skeleton, per run.

A unit is a skeleton file /verif/verus/<unit>.spec.rs with directives

    //@extract <repo-relative file> :: <impl header prefix or '-'> :: <fn name> [ret=<name>] [spec=<D:=&'a [T]>]
    //@obligation props=C11 [role=claim] :: <clause>
    //@fn <functions under contract>
    <contract lines: requires/ensures/decreases ...>        (spliced between signature and body, rule R3)
    //@end

and ordinary Verus items (spec fns, lemmas, struct copies under //@struct). Every `proof fn lemma_*` carrying an
//@obligation line is an obligation of its own.  Rules R1-R7 are those of DESIGN.md 2.2; nothing else inside a
body is added, removed or reordered.
"""
import os, re, json, subprocess, time, hashlib

VERIF = os.path.dirname(os.path.dirname(os.path.abspath(__file__)))
VDIR = os.path.join(VERIF, "verus")

VERIF_ERRORS = ("postcondition not satisfied", "precondition not satisfied", "possible arithmetic underflow/overflow",
                "assertion failed", "possible division by zero", "invariant not satisfied", "decreases not satisfied",
                "possible bit shift underflow/overflow", "recommendation not met", "loop invariant not preserved",
                "termination condition", "possible truncation")
RLIMIT_ERRORS = ("rlimit", "Resource limit")


# ---------------------------------------------------------------- Rust lexing helpers
def skip_ws_comments(s, i):
    while i < len(s):
        if s[i].isspace():
            i += 1
        elif s.startswith("//", i):
            i = s.index("\n", i) if "\n" in s[i:] else len(s)
        elif s.startswith("/*", i):
            i = s.index("*/", i) + 2
        else:
            break
    return i


def match_close(s, i, open_ch="{", close_ch="}"):
    """s[i] == open_ch; returns index of the matching close, skipping strings, chars, lifetimes and comments"""
    depth = 0
    n = len(s)
    while i < n:
        c = s[i]
        if s.startswith("//", i):
            j = s.find("\n", i)
            i = n if j < 0 else j
            continue
        if s.startswith("/*", i):
            i = s.index("*/", i) + 2
            continue
        if c == '"':
            i += 1
            while s[i] != '"':
                i += 2 if s[i] == "\\" else 1
            i += 1
            continue
        if c == "'":
            # char literal or lifetime
            m = re.match(r"'(\\.[^']*|[^'\\])'", s[i:])
            if m:
                i += m.end()
            else:
                i += 1
            continue
        if c == open_ch:
            depth += 1
        elif c == close_ch:
            depth -= 1
            if depth == 0:
                return i
        i += 1
    raise ValueError("unbalanced")


def find_fn(src, impl_prefix, name):
    """returns (start, sig_end, body_open, body_close) of `fn name` inside the impl whose header starts with impl_prefix"""
    lo, hi = 0, len(src)
    if impl_prefix and impl_prefix != "-":
        found = False
        for m in re.finditer(re.escape(impl_prefix), src):
            # header must be followed (possibly after a where clause) by '{'
            b = src.find("{", m.end() - 1 if src[m.end() - 1] == "{" else m.end())
            if b < 0:
                continue
            e = match_close(src, b)
            if re.search(r"\bfn\s+" + re.escape(name) + r"\b", src[b:e]):
                lo, hi, found = b, e, True
                break
        if not found:
            return None
    m = re.search(r"\bfn\s+" + re.escape(name) + r"\s*(<[^>{]*>)?\s*\(", src[lo:hi])
    if not m:
        return None
    fn_kw = lo + m.start()
    # include leading attributes / visibility on preceding lines
    start = src.rfind("\n", 0, fn_kw) + 1
    k = start
    while True:
        p = src.rfind("\n", 0, k - 1) + 1
        line = src[p:k].strip()
        if line.startswith("#[") or line.startswith("///") or line.startswith("//"):
            k = p
        else:
            break
    start = k
    par = lo + m.end() - 1
    par_close = match_close(src, par, "(", ")")
    body_open = src.index("{", par_close)
    # a where clause may sit between; fine
    body_close = match_close(src, body_open)
    return start, par_close, body_open, body_close


def split_top_comma(s):
    depth = 0
    i = 0
    while i < len(s):
        c = s[i]
        if c == '"':
            i += 1
            while s[i] != '"':
                i += 2 if s[i] == "\\" else 1
        elif c in "([{":
            depth += 1
        elif c in ")]}":
            depth -= 1
        elif c == "," and depth == 0:
            return s[:i], s[i + 1:]
        i += 1
    return s, None


def rewrite_macros(body, rules):
    """R2: assert!(c, ..) -> if !(c) { reject() } ; panic!/unreachable!(..) -> reject()"""
    out = []
    i = 0
    while i < len(body):
        m = re.compile(r"\b(assert|assert_eq|assert_ne|debug_assert|panic|unreachable)!\s*\(").search(body, i)
        if not m:
            out.append(body[i:])
            break
        out.append(body[i:m.start()])
        close = match_close(body, m.end() - 1, "(", ")")
        args = body[m.end():close]
        kind = m.group(1)
        end = close + 1
        semi = body[end:end + 1] == ";"
        if kind in ("panic", "unreachable"):
            out.append("reject()")
        elif kind == "assert":
            cond, _ = split_top_comma(args)
            out.append("if !(" + " ".join(cond.split()) + ") { reject() }")
            if semi:
                end += 1
        elif kind in ("assert_eq", "assert_ne"):
            a, rest = split_top_comma(args)
            b, _ = split_top_comma(rest)
            op = "==" if kind == "assert_eq" else "!="
            out.append(f"if !(({a.strip()}) {op} ({b.strip()})) {{ reject() }}")
            if semi:
                end += 1
        else:
            raise ValueError("unsupported macro " + kind)
        rules.add("R2")
        i = end
    return "".join(out)


def rewrite_then(body, rules):
    """R5: (c).then(|| e) -> if c { Some(e) } else { None }"""
    def rep(m):
        rules.add("R5")
        return f"if {m.group(1)} {{ Some({m.group(2)}) }} else {{ None }}"
    return re.sub(r"\(([^()]*)\)\.then\(\|\|\s*((?:[^()]|\([^()]*\))*)\)", rep, body)


def strip_attrs(text, rules):
    """R1"""
    out = []
    for ln in text.split("\n"):
        st = ln.strip()
        if st.startswith("///") or st.startswith("//"):
            rules.add("R1")
            continue
        if re.match(r"#\[(inline|must_use|rustfmt::skip|doc|cfg_attr\(kani)", st):
            rules.add("R1")
            continue
        out.append(ln)
    text = "\n".join(out)
    new = re.sub(r"^(\s*)pub(\([a-z]+\))?\s+fn\b", r"\1fn", text, flags=re.M)
    if new != text:
        rules.add("R1")
    return new


def extract(repo, directive):
    """directive: dict(file, impl, fn, ret, contract, spec) -> (verus text, meta) or raises LookupError"""
    path = os.path.join(repo, directive["file"])
    src = open(path).read()
    loc = find_fn(src, directive["impl"], directive["fn"])
    if loc is None:
        raise LookupError(f"lost anchor: fn {directive['fn']} in `{directive['impl']}` of {directive['file']}")
    start, par_close, body_open, body_close = loc
    raw = src[start:body_close + 1]
    rules = set()
    head = strip_attrs(src[start:body_open], rules)
    body = src[body_open:body_close + 1]
    body = "\n".join(l for l in body.split("\n") if not l.strip().startswith("//"))
    body = rewrite_macros(body, rules)
    body = rewrite_then(body, rules)
    # R6: `p @ (a, b): T` parameter patterns
    m = re.search(r"(\w+)\s*@\s*(\([^)]*\))\s*:", head)
    if m:
        head = head.replace(m.group(0), m.group(1) + ":")
        body = "{\n        let " + m.group(2) + " = " + m.group(1) + ";" + body[1:]
        rules.add("R6")
    # R7: specialisation of a generic storage parameter
    if directive.get("spec"):
        for a, b in (kv.split(":=") for kv in directive["spec"].split(";")):
            head = re.sub(r"\b" + re.escape(a.strip()) + r"\b", b.strip(), head)
        rules.add("R7")
    # R3: name the result and splice the contract
    head = head.rstrip()
    ret = directive.get("ret")
    mret = re.search(r"->\s*(.+?)\s*$", head, re.S)
    if mret and ret:
        head = head[:mret.start()] + f"-> ({ret}: {mret.group(1).strip()})"
    rules.add("R3")
    text = head + "\n" + directive["contract"].rstrip() + "\n    " + body.strip() + "\n"
    meta = {"file": directive["file"], "fn": directive["fn"], "impl": directive["impl"],
            "lines": [src.count("\n", 0, start) + 1, src.count("\n", 0, body_close) + 1],
            "sha256": hashlib.sha256(raw.encode()).hexdigest(), "rules": sorted(rules)}
    return text, meta


# ---------------------------------------------------------------- units
def parse_unit(path):
    """returns (segments, obligations-meta).  segments: list of ('text', str) | ('extract', directive)"""
    lines = open(path).read().split("\n")
    segs, cur = [], []
    i = 0
    obs = []
    pending_ob = None
    while i < len(lines):
        ln = lines[i]
        st = ln.strip()
        if st.startswith("//@obligation"):
            head, _, clause = st[len("//@obligation"):].partition("::")
            kv = dict(t.split("=", 1) for t in head.split())
            pending_ob = {"props": kv["props"].split(","), "role": kv.get("role", "claim"), "clause": clause.strip(), "fns": [],
                          "tier": kv.get("tier", "quick"), "pair": kv.get("pair")}
            i += 1
            continue
        if st.startswith("//@fn") and pending_ob is not None:
            pending_ob["fns"] += [f.strip() for f in st[len("//@fn"):].split(" ; ")]
            i += 1
            continue
        if st.startswith("//@extract"):
            parts = [p.strip() for p in st[len("//@extract"):].split("::")]
            opts = {}
            fn = parts[2].split()[0]
            for mo in re.finditer(r"(\w+)=(.*?)(?=\s+\w+=|$)", parts[2][len(fn):]):
                opts[mo.group(1)] = mo.group(2).strip()
            contract = []
            i += 1
            while lines[i].strip() != "//@end":
                contract.append(lines[i])
                i += 1
            d = {"file": parts[0], "impl": parts[1], "fn": fn, "ret": opts.get("ret"), "spec": opts.get("spec"),
                 "contract": "\n".join(contract), "name": opts.get("as", fn)}
            if cur:
                segs.append(("text", "\n".join(cur)))
                cur = []
            segs.append(("extract", d))
            if pending_ob is not None:
                pending_ob["name"] = d["name"]
                pending_ob["kind"] = "extract"
                if not pending_ob["fns"]:
                    pending_ob["fns"] = [f"{parts[1]}::{fn}" if parts[1] != "-" else fn]
                obs.append(pending_ob)
                pending_ob = None
            i += 1
            continue
        m = re.match(r"\s*(pub )?(proof|spec|exec)?\s*fn (\w+)", ln)
        if m and pending_ob is not None:
            pending_ob["name"] = m.group(3)
            pending_ob["kind"] = "lemma"
            obs.append(pending_ob)
            pending_ob = None
        cur.append(ln)
        i += 1
    if cur:
        segs.append(("text", "\n".join(cur)))
    return segs, obs


def units():
    return sorted(f[:-len(".spec.rs")] for f in os.listdir(VDIR) if f.endswith(".spec.rs")) if os.path.isdir(VDIR) else []


def obligations(Ob):
    out = []
    for u in units():
        _, obs = parse_unit(os.path.join(VDIR, u + ".spec.rs"))
        for o in obs:
            out.append(Ob(name=f"verus_{u}_{o['name']}", backend="verus", props=o["props"], tier=o["tier"], kind="P", role=o["role"],
                          fns=o["fns"], clause=o["clause"], unit=u, timeout=300))
            out[-1].vname = o["name"]
            out[-1].vkind = o["kind"]
            out[-1].pair = o.get("pair")
    return out


_cache = {}


def falsify_contract(contract):
    """replace the ensures clause by `ensures false` (vacuity twin); None if there is no requires to guard"""
    if "requires" not in contract:
        return None
    i = contract.index("ensures")
    return contract[:i] + "ensures false,\n"


def build_unit(u, repo, tmp, falsify=None):
    """assemble the Verus file; returns (path, fn_ranges{name:(lo,hi)}, metas, error).
    falsify=<name>: the vacuity twin in which that one obligation's postcondition is `false` (must then FAIL)."""
    segs, _ = parse_unit(os.path.join(VDIR, u + ".spec.rs"))
    out_lines, ranges, metas = [], {}, []
    for kind, val in segs:
        if kind == "text":
            if falsify:
                mm = re.search(r"proof fn " + re.escape(falsify) + r"\b.*?\n\s*(ensures.*?)(?=\n\s*decreases|\n\{)", val, re.S)
                if mm:
                    val = val[:mm.start(1)] + "ensures false," + val[mm.end(1):]
            out_lines += val.split("\n")
        else:
            if falsify == val["name"]:
                val = dict(val, contract=falsify_contract(val["contract"]))
            try:
                text, meta = extract(repo, val)
            except (LookupError, ValueError) as e:
                return None, None, None, str(e)
            lo = len(out_lines) + 1
            out_lines += text.split("\n")
            ranges[val["name"]] = (lo, len(out_lines))
            meta["as"] = val["name"]
            metas.append(meta)
    # lemma ranges: from `proof fn name` to the next top-level fn start
    txt = "\n".join(out_lines)
    for m in re.finditer(r"^\s*(?:pub )?proof fn (\w+)", txt, re.M):
        lo = txt.count("\n", 0, m.start()) + 1
        b = txt.index("{", txt.index(")", m.end()))
        # find body: first '{' at depth 0 after the signature/contract -- approximate by matching from the line with a lone '{'
        mm = re.compile(r"^\s*\{\s*$|\{\s*\}\s*$|\)\s*\{|,\s*\{", re.M).search(txt, m.end())
        try:
            hi_idx = match_close(txt, txt.index("{", mm.start()) if mm else b)
        except ValueError:
            hi_idx = len(txt) - 1
        ranges.setdefault(m.group(1), (lo, txt.count("\n", 0, hi_idx) + 1))
    path = os.path.join(tmp, f"verus_{u}{'_vac_' + falsify if falsify else ''}.rs")
    open(path, "w").write(txt + "\n")
    return path, ranges, metas, None


def has_requires(u, name):
    segs, _ = parse_unit(os.path.join(VDIR, u + ".spec.rs"))
    for kind, val in segs:
        if kind == "extract" and val["name"] == name:
            return "requires" in val["contract"]
        if kind == "text":
            mm = re.search(r"proof fn " + re.escape(name) + r"\b(.*?)\n\{", val, re.S)
            if mm:
                return "requires" in mm.group(1)
    return False


def vacuity_check(u, name, repo, tmp):
    """True = the precondition is satisfiable (twin with `ensures false` fails), False = vacuous, None = could not tell"""
    if not has_requires(u, name):
        return True
    path, ranges, _, err = build_unit(u, repo, tmp, falsify=name)
    if err:
        return None
    js, errs, stderr, wall = run_verus(path)
    if js is None:
        return None
    rng = ranges.get(name)
    if any(not any(msg.startswith(v) for v in VERIF_ERRORS) and "aborting due to" not in msg for msg, _ in errs):
        return None     # the twin did not get as far as verification
    return any(rng[0] <= ln <= rng[1] and msg.startswith("postcondition not satisfied") for msg, ln in errs)


def run_verus(path, timeout=600):
    t0 = time.time()
    p = subprocess.run(["verus", path, "--output-json", "--time", "--triggers-mode", "silent"], capture_output=True, text=True, timeout=timeout,
                       cwd=os.path.dirname(path))
    wall = time.time() - t0
    js = None
    m = re.search(r"\{\s*\"func-details\".*\}\s*$", p.stdout, re.S) or re.search(r"\{.*\}\s*$", p.stdout, re.S)
    if m:
        try:
            js = json.loads(m.group(0))
        except Exception:
            js = None
    errs = []
    for em in re.finditer(r"^(error(?:\[E\d+\])?: .*?)\n\s*--> [^:\n]+:(\d+):(\d+)", p.stderr, re.M):
        errs.append((em.group(1)[len("error: "):] if em.group(1).startswith("error: ") else em.group(1), int(em.group(2))))
    return js, errs, p.stderr, wall


def run_unit(u, repo, tmp):
    if u in _cache:
        return _cache[u]
    path, ranges, metas, err = build_unit(u, repo, tmp)
    res = {"ranges": ranges, "metas": metas, "error": err, "errs": [], "js": None, "stderr": "", "wall": 0, "path": path}
    if err is None:
        js, errs, stderr, wall = run_verus(path)
        res.update(js=js, errs=errs, stderr=stderr, wall=wall)
        # vacuity companion: for every extracted contract `requires P`, proof fn with requires P ensures false must FAIL
    _cache[u] = res
    return res


def run(o, repo, tmp, results, obs=None):
    r = run_unit(o.unit, repo, tmp)
    if r["error"]:
        results[o.key] = {"status": "undecided", "reason": r["error"], "checks": 0}
        return
    js = r["js"]
    if js is None:
        results[o.key] = {"status": "undecided", "reason": "verus produced no result", "detail": r["stderr"][-1500:], "checks": 0}
        return
    vr = js.get("verification-results", {})
    rng = r["ranges"].get(o.vname)
    if rng is None:
        results[o.key] = {"status": "undecided", "reason": f"obligation {o.vname} not found in assembled unit", "checks": 0}
        return
    mine = [(msg, ln) for msg, ln in r["errs"] if rng[0] <= ln <= rng[1]]
    hard = [(msg, ln) for msg, ln in r["errs"] if not any(msg.startswith(v) for v in VERIF_ERRORS) and
            not any(x in msg for x in RLIMIT_ERRORS) and "aborting due to" not in msg]
    smt = js.get("times-ms", {}).get("smt", {}).get("smt-run", 0) / 1000.0
    base = {"solver_s": smt, "duration_s": r["wall"], "checks": 1, "covers_satisfied": 0,
            "extracted": [m for m in r["metas"] if m["as"] == o.vname]}
    if hard or vr.get("encountered-vir-error"):
        msg = hard[0][0] if hard else "vir error"
        base.update(status="undecided", reason="tool limit / not verifiable text: " + msg[:300], detail=r["stderr"][-2000:])
    elif any(any(x in msg for x in RLIMIT_ERRORS) for msg, _ in mine):
        base.update(status="undecided", reason="rlimit exceeded")
    elif mine:
        # text of the failing obligation from stderr
        blocks = [b for b in re.split(r"\n(?=error)", r["stderr"]) if any(f":{ln}:" in b for _, ln in mine)]
        base.update(status="failed", reason="; ".join(sorted(set(m for m, _ in mine))),
                    failed=f"{o.vname}: " + "; ".join(sorted(set(m for m, _ in mine))), detail="\n".join(blocks)[-3000:])
    else:
        vac = vacuity_check(o.unit, o.vname, repo, tmp)
        if vac is True:
            base.update(status="discharged", covers_satisfied=1)
        elif vac is False:
            base.update(status="undecided", reason="vacuous: the contract's precondition is unsatisfiable (twin with `ensures false` verifies)")
        else:
            base.update(status="undecided", reason="vacuity twin could not be checked")
    results[o.key] = base


def assumptions(obs):
    out = []
    if any(o.backend == "verus" for o in obs):
        out += ["verus: `reject()` is an external_body diverging function standing for assert!/panic! (rule R2); machine integers are "
                "bit-width exact (overflow is an obligation), usize is assumed 32 or 64 bits by Verus",
                "verus: extraction rules R1-R7 (doc/attr/visibility dropped, assert!/panic! -> reject(), bool::then unfolded, "
                "`p @ (a,b)` parameter split, Inner::new storage specialised to &[T]); SHA-256 of every extracted span is in per_obligation"]
    return out
