"""Exact-computation lemmas over contracts (DESIGN.md C19): the order of the xorshift step map over GF(2)."""
import os, subprocess, time, json

VERIF = os.path.dirname(os.path.dirname(os.path.abspath(__file__)))
N = (1 << 64) - 1
PRIMES = [3, 5, 17, 257, 641, 65537, 6700417]


def obligations(Ob):
    return [Ob(name="rand_period_lemma", backend="exact", props=["C19"], tier="quick", kind="P", timeout=600,
               fns=["Xorshift64::next_bits"], unit="xorshift_order",
               clause="lemma over next_bits' contract (linearity premise rand_step_linear): the 64x64 GF(2) matrix T whose columns are "
                      "next_bits(1<<i), obtained by running the real code, satisfies T^(2^64-1)=I and T^((2^64-1)/p)!=I for the seven prime "
                      "factors p; its order is 2^64-1, so GF(2)[T] is a field and every non-zero state lies on one cycle of length 2^64-1")]


def apply(c, x):
    r = 0
    i = 0
    while x:
        if x & 1:
            r ^= c[i]
        x >>= 1
        i += 1
    return r


def mul(A, B):
    return [apply(A, c) for c in B]


I64 = [1 << i for i in range(64)]


def mpow(A, e):
    R, P = I64, A
    while e:
        if e & 1:
            R = mul(P, R)
        P = mul(P, P)
        e >>= 1
    return R


def kernel_vector(cols):
    """a non-zero x with T x = 0, or None if T is invertible (Gaussian elimination over GF(2))"""
    basis = {}   # pivot bit -> (vector, combination)
    for i, c in enumerate(cols):
        v, comb = c, 1 << i
        while v:
            p = v.bit_length() - 1
            if p in basis:
                bv, bc = basis[p]
                v ^= bv
                comb ^= bc
            else:
                basis[p] = (v, comb)
                break
        if v == 0:
            return comb
    return None


def run(o, repo, tmp, results):
    t0 = time.time()
    import shutil
    crate = os.path.join(tmp, "xorcols")
    shutil.copytree(os.path.join(VERIF, "native", "xorcols"), crate, dirs_exist_ok=True)
    mf = os.path.join(crate, "Cargo.toml")
    txt = open(mf).read().replace('path = "/repo/core"', f'path = "{repo}/core"')
    open(mf, "w").write(txt)
    tdir = os.path.join(tmp, "native-xorcols")
    env = dict(os.environ, CARGO_NET_OFFLINE="true", CARGO_TARGET_DIR=tdir)
    cmd = ["cargo", "run", "--offline", "-q", "--manifest-path", mf]
    p = subprocess.run(cmd, env=env, capture_output=True, text=True, timeout=900)
    if p.returncode != 0:
        results[o.key] = {"status": "undecided", "reason": "native column extraction did not build/run", "detail": p.stderr[-1500:], "checks": 0}
        return
    cols = [int(x) for x in p.stdout.split()]
    if len(cols) != 64:
        results[o.key] = {"status": "undecided", "reason": "native column extraction returned %d values" % len(cols), "checks": 0}
        return
    checks = 0
    fail = None
    k = kernel_vector(cols)
    checks += 1
    ce = None
    if k is not None:
        # T is singular: by linearity (premise) the non-zero state k steps to 0 -- replay it on the real code
        q = subprocess.run(cmd + ["--", str(k)], env=env, capture_output=True, text=True, timeout=900)
        out = q.stdout.split()
        if len(out) == 3 and int(out[1]) == 0:
            ce = {"state": k, "next_bits": 0, "what": "non-zero seed reaches the all-zero state"}
            fail = "step map is singular over GF(2): state %d steps to 0" % k
        else:
            results[o.key] = {"status": "undecided", "reason": "columns are linearly dependent but the predicted zero does not replay (step not linear?)", "checks": checks}
            return
    else:
        full = mpow(cols, N)
        checks += 1
        if full != I64:
            fail = "T^(2^64-1) != I: the order of the step map does not divide 2^64-1, so the non-zero states do not form one cycle of length 2^64-1"
        else:
            for pr in PRIMES:
                checks += 1
                if mpow(cols, N // pr) == I64:
                    fail = f"T^((2^64-1)/{pr}) = I: every orbit has length dividing (2^64-1)/{pr}; the period is not 2^64-1"
                    break
    wall = time.time() - t0
    if fail:
        results[o.key] = {"status": "failed", "reason": fail, "failed": "rand_period_lemma: " + fail, "counterexample": ce,
                          "detail": json.dumps({"columns_next_bits_of_1_shl_i": cols}), "checks": checks, "solver_s": wall, "duration_s": wall,
                          "replay_cmd": f"{VERIF}/bin/check C19 --only rand_period_lemma"}
    else:
        results[o.key] = {"status": "discharged", "checks": checks, "solver_s": wall, "duration_s": wall, "covers_satisfied": 0}
