// Verus unit for C06: lemmas OVER the per-pixel contract of <Framebuf as Target>::rasterize
// (Kani obligation target_framebuf_update: with depth test Less and both writes on, a pixel state (z, c)
// hit by a fragment (z_f, c_f) becomes upd((z,c),(z_f,c_f)); every other pixel is unchanged).
// Nothing here models the code: the lemmas lift that postcondition from one fragment to histories.
use vstd::prelude::*;

verus! {

pub struct Px { pub z: int, pub c: int }

/// the contract's per-pixel update (depth test Less on reciprocal depth, colour+depth written on pass)
pub open spec fn upd(s: Px, f: Px) -> Px { if f.z > s.z { f } else { s } }

pub open spec fn fold(s: Px, fs: Seq<Px>) -> Px
    decreases fs.len()
{
    if fs.len() == 0 { s } else { fold(upd(s, fs[0]), fs.subrange(1, fs.len() as int)) }
}

pub open spec fn distinct_z(s: Px, fs: Seq<Px>) -> bool {
    &&& forall|i: int, j: int| 0 <= i < j < fs.len() ==> fs[i].z != fs[j].z
    &&& forall|i: int| 0 <= i < fs.len() ==> fs[i].z != s.z
}

/// r is the nearest (largest reciprocal depth) among the initial state and the fragments
pub open spec fn is_nearest(r: Px, s: Px, fs: Seq<Px>) -> bool {
    &&& (r == s || exists|i: int| 0 <= i < fs.len() && fs[i] == r)
    &&& r.z >= s.z
    &&& forall|i: int| 0 <= i < fs.len() ==> r.z >= fs[i].z
}

//@obligation props=C06 :: each pixel ends with the nearest fragment covering it: folding the contract's update over any fragment sequence yields the initial state or one of the fragments, with maximal reciprocal depth
pub proof fn lemma_fold_nearest(s: Px, fs: Seq<Px>)
    ensures is_nearest(fold(s, fs), s, fs),
    decreases fs.len(),
{
    if fs.len() > 0 {
        let rest = fs.subrange(1, fs.len() as int);
        let s1 = upd(s, fs[0]);
        lemma_fold_nearest(s1, rest);
        let r = fold(s1, rest);
        assert(forall|i: int| 0 <= i < rest.len() ==> rest[i] == fs[i + 1]);
        assert forall|i: int| 0 <= i < fs.len() implies r.z >= fs[i].z by {
            if i > 0 { assert(rest[i - 1] == fs[i]); }
        }
        if r != s1 {
            let k = choose|k: int| 0 <= k < rest.len() && rest[k] == r;
            assert(fs[k + 1] == r);
        } else if s1 != s {
            assert(fs[0] == r);
        }
    }
}

//@obligation props=C06 :: with no exact depth ties the nearest element is unique, so the final pixel state is the same for every submission order: any two fragment sequences with the same elements (permutations) fold to the same state
pub proof fn lemma_order_independent(s: Px, fs: Seq<Px>, gs: Seq<Px>)
    requires
        distinct_z(s, fs),
        fs.len() == gs.len(),
        forall|i: int| 0 <= i < fs.len() ==> gs.contains(#[trigger] fs[i]),
        forall|j: int| 0 <= j < gs.len() ==> fs.contains(#[trigger] gs[j]),
    ensures fold(s, fs) == fold(s, gs),
{
    lemma_fold_nearest(s, fs);
    lemma_fold_nearest(s, gs);
    let a = fold(s, fs);
    let b = fold(s, gs);
    // a.z >= every element of gs (each is an element of fs) and b.z >= every element of fs: equal depth
    if a != s {
        let i = choose|i: int| 0 <= i < fs.len() && fs[i] == a;
        assert(gs.contains(fs[i]));
        let j = choose|j: int| 0 <= j < gs.len() && gs[j] == fs[i];
        assert(b.z >= a.z);
    }
    if b != s {
        let j = choose|j: int| 0 <= j < gs.len() && gs[j] == b;
        assert(fs.contains(gs[j]));
        let i = choose|i: int| 0 <= i < fs.len() && fs[i] == gs[j];
        assert(a.z >= b.z);
    }
    assert(a.z == b.z);
    // uniqueness of the depth value under distinct_z
    if a != b {
        if a == s {
            let j = choose|j: int| 0 <= j < gs.len() && gs[j] == b;
            assert(fs.contains(gs[j]));
            let i = choose|i: int| 0 <= i < fs.len() && fs[i] == gs[j];
            assert(fs[i].z == s.z);
        } else if b == s {
            let i = choose|i: int| 0 <= i < fs.len() && fs[i] == a;
            assert(fs[i].z == s.z);
        } else {
            let i = choose|i: int| 0 <= i < fs.len() && fs[i] == a;
            let j = choose|j: int| 0 <= j < gs.len() && gs[j] == b;
            assert(fs.contains(gs[j]));
            let i2 = choose|i2: int| 0 <= i2 < fs.len() && fs[i2] == gs[j];
            assert(fs[i].z == fs[i2].z);
            assert(i == i2);
        }
    }
}

//@obligation props=C06 :: any split of the scene into separate render calls gives the same result: folding a concatenation equals folding the second part from the state left by the first
pub proof fn lemma_split_calls(s: Px, fs: Seq<Px>, gs: Seq<Px>)
    ensures fold(s, fs + gs) == fold(fold(s, fs), gs),
    decreases fs.len(),
{
    if fs.len() == 0 {
        assert(fs + gs =~= gs);
    } else {
        let all = fs + gs;
        assert(all[0] == fs[0]);
        assert(all.subrange(1, all.len() as int) =~= fs.subrange(1, fs.len() as int) + gs);
        lemma_split_calls(upd(s, fs[0]), fs.subrange(1, fs.len() as int), gs);
    }
}

/// painter's update: depth test off, every covering fragment overwrites
pub open spec fn paint(s: Px, fs: Seq<Px>) -> Px
    decreases fs.len()
{
    if fs.len() == 0 { s } else { paint(fs[0], fs.subrange(1, fs.len() as int)) }
}

pub open spec fn ascending_z(fs: Seq<Px>) -> bool {
    forall|i: int, j: int| 0 <= i < j < fs.len() ==> fs[i].z < fs[j].z
}

//@obligation props=C06 :: painter's-order corollary: with the depth test off, fragments submitted back to front (ascending reciprocal depth, which is what the BackToFront sort contract delivers for disjoint depth ranges) over a background farther than all of them leave the same pixel as the depth-buffered fold
pub proof fn lemma_painter_equals_zbuffer(s: Px, fs: Seq<Px>)
    requires ascending_z(fs), forall|i: int| 0 <= i < fs.len() ==> fs[i].z > s.z,
    ensures paint(s, fs) == fold(s, fs),
    decreases fs.len(),
{
    if fs.len() > 0 {
        let rest = fs.subrange(1, fs.len() as int);
        assert(forall|i: int| 0 <= i < rest.len() ==> rest[i] == fs[i + 1]);
        assert(upd(s, fs[0]) == fs[0]);
        assert forall|i: int| 0 <= i < rest.len() implies rest[i].z > fs[0].z by { assert(rest[i] == fs[i + 1]); }
        lemma_painter_equals_zbuffer(fs[0], rest);
    }
}

} // verus!
fn main() {}
