// Verus unit for C12: a lemma over the repeating sampler's addressing `floor(c) as i32 as u32 & (size - 1)`.
use vstd::prelude::*;

verus! {

pub open spec fn is_pot(w: u32) -> bool { w > 0 && w & sub(w, 1) == 0 }

//@obligation props=C12 :: for EVERY power-of-two texture size w (all of u32) the masked coordinate x & (w-1) is a valid texel index (< w), whatever 32-bit value the float-to-integer conversion produced; together with to_index_checked's contract (x < w and y < h is accepted, for all geometries) the repeating sampler cannot index out of bounds for any size
pub proof fn lemma_pot_mask_in_range(x: u32, w: u32)
    requires is_pot(w),
    ensures x & sub(w, 1) < w,
{
    assert(w > 0 && w & sub(w, 1) == 0 ==> x & sub(w, 1) < w) by(bit_vector);
}

//@obligation props=C12 :: the mask is the coordinate modulo the size: for every power-of-two w, x & (w-1) == x % w (so the texel is floor(c) mod size once floor(c) has been reduced to 32 bits)
pub proof fn lemma_pot_mask_is_mod(x: u32, w: u32)
    requires is_pot(w),
    ensures x & sub(w, 1) == x % w,
{
    assert(w > 0 && w & sub(w, 1) == 0 ==> x & sub(w, 1) == x % w) by(bit_vector);
}

} // verus!
fn main() {}
