// Verus unit for core/src/util/buf.rs: the index arithmetic of Inner, verified for ALL u32 geometries.
// Function bodies are spliced in from /repo on every run by bin/verus_units.py (rules R1-R7, DESIGN.md 2.2).
use vstd::prelude::*;
use core::marker::PhantomData;
use core::ops::Range;

verus! {

#[verifier::external_body]
fn reject() -> ! { panic!() }

// R4: struct copies (derives dropped)
pub struct Rect<T = u32> { pub left: Option<T>, pub top: Option<T>, pub right: Option<T>, pub bottom: Option<T> }
pub type Dims = (u32, u32);
pub struct Inner<T, D> { dims: Dims, stride: u32, data: D, _pd: PhantomData<T> }

/// linear index of cell (x, y) for a given row pitch
pub open spec fn idx(stride: u32, x: u32, y: u32) -> int { y as int * stride as int + x as int }

/// the backing data can hold the cells of a w x h view with the given pitch (an empty view has no cells)
pub open spec fn fits(w: u32, h: u32, stride: u32, len: int) -> bool {
    &&& w <= stride
    &&& (w > 0 && h > 0 ==> (h - 1) * stride + w <= len)
}

impl<T, D> Inner<T, D> {
    /// geometry part of the representation invariant (what Inner::new establishes, minus the data length)
    pub closed spec fn wf_geom(&self) -> bool {
        &&& self.dims.0 <= self.stride
        &&& self.dims.1 as int * self.stride as int + self.dims.0 as int <= u32::MAX as int
    }
    pub closed spec fn w(&self) -> u32 { self.dims.0 }
    pub closed spec fn h(&self) -> u32 { self.dims.1 }
    pub closed spec fn pitch(&self) -> u32 { self.stride }

    //@obligation props=C11 :: to_index(x,y) = y*stride + x with no u32 overflow whenever that value is representable
    //@extract core/src/util/buf.rs :: impl<T, D> Inner<T, D> { :: to_index ret=r
        requires idx(self.stride, x, y) <= u32::MAX as int,
        ensures r as int == idx(self.stride, x, y),
    //@end

    //@obligation props=C11 pair=buf_to_index_checked_small :: to_index_checked returns Some(i) exactly for in-bounds (x,y), with i = y*stride+x strictly inside the view's extent; None otherwise (access outside the bounds is rejected)
    #[verifier::nonlinear]
    //@extract core/src/util/buf.rs :: impl<T, D> Inner<T, D> { :: to_index_checked ret=r
        requires self.wf_geom(),
        ensures r.is_some() <==> (x < self.dims.0 && y < self.dims.1),
                r.is_some() ==> r.unwrap() as int == idx(self.stride, x, y),
                r.is_some() ==> idx(self.stride, x, y) < (self.dims.1 - 1) * self.stride + self.dims.0,
    //@end

    //@obligation props=C11 pair=buf_resolve_bounds_small :: resolve_bounds rejects unless l<=r<=w and t<=b<=h; otherwise dims' = (r-l, b-t); for a non-empty rectangle the linear range starts at cell (l,t), spans exactly (b-t-1)*stride + (r-l) elements and ends inside the parent's extent; for an empty rectangle the range is empty; in every case it ends inside the extent the data is known to hold
    #[verifier::nonlinear]
    //@extract core/src/util/buf.rs :: impl<T, D> Inner<T, D> { :: resolve_bounds ret=res
        requires self.wf_geom(),
        ensures ({
            let l = if rect.left is Some { rect.left.unwrap() } else { 0 };
            let t = if rect.top is Some { rect.top.unwrap() } else { 0 };
            let r = if rect.right is Some { rect.right.unwrap() } else { self.dims.0 };
            let b = if rect.bottom is Some { rect.bottom.unwrap() } else { self.dims.1 };
            &&& l <= r <= self.dims.0 && t <= b <= self.dims.1
            &&& res.0.0 == r - l && res.0.1 == b - t
            &&& res.1.start <= res.1.end
            // a non-empty rectangle: the range starts at cell (l,t), spans the rows up to the end of the last one, inside the parent's extent
            &&& (b > t && r > l ==> res.1.start as int == idx(self.stride, l, t))
            &&& (b > t && r > l ==> res.1.end as int - res.1.start as int == (b - t - 1) * self.stride as int + (r - l))
            &&& (b > t && r > l ==> res.1.end as int <= (self.dims.1 - 1) * self.stride + self.dims.0)
            // an empty rectangle has no cells: the range is empty and never reaches beyond the data
            &&& (b == t || r == l ==> res.1.start == res.1.end)
            &&& (self.dims.1 > 0 ==> res.1.end as int <= (self.dims.1 - 1) * self.stride + self.dims.0)
            &&& (self.dims.1 == 0 ==> res.1.end == 0)
        }),
    //@end

    //@obligation props=C11 :: extent getter: width() reports the view's own width dims.0 (the w of the h rows of w elements the index contracts speak about)
    //@extract core/src/util/buf.rs :: impl<T, D> Inner<T, D> { :: width ret=r
        ensures r == self.dims.0,
    //@end
    //@obligation props=C11 :: extent getter: height() reports the view's own height dims.1
    //@extract core/src/util/buf.rs :: impl<T, D> Inner<T, D> { :: height ret=r
        ensures r == self.dims.1,
    //@end
    //@obligation props=C11 :: extent getter: dims() reports exactly (width, height) of the view
    //@extract core/src/util/buf.rs :: impl<T, D> Inner<T, D> { :: dims ret=r
        ensures r == self.dims,
    //@end
    //@obligation props=C11 :: extent getter: stride() reports the row pitch used by to_index
    //@extract core/src/util/buf.rs :: impl<T, D> Inner<T, D> { :: stride ret=r
        ensures r == self.stride,
    //@end

    //@obligation props=C11 :: is_contiguous is true exactly when the view's cells form one gap-free run (pitch = width, or at most one row, or zero width)
    //@extract core/src/util/buf.rs :: impl<T, D> Inner<T, D> { :: is_contiguous ret=r
        ensures r <==> (self.stride == self.dims.0 || self.dims.1 <= 1 || self.dims.0 == 0),
    //@end

    //@obligation props=C11 :: is_empty is true exactly when width or height is zero
    //@extract core/src/util/buf.rs :: impl<T, D> Inner<T, D> { :: is_empty ret=r
        ensures r <==> (self.dims.0 == 0 || self.dims.1 == 0),
    //@end
}

impl<'a, T> Inner<T, &'a [T]> {
    //@obligation props=C11 :: the view constructor accepts only geometries the data can hold: if it returns, width <= stride and (h-1)*stride + w <= data length; the returned view has exactly the requested dims, stride and data
    #[verifier::nonlinear]
    //@extract core/src/util/buf.rs :: impl<T, D: Deref<Target = [T]>> Inner<T, D> { :: new ret=res spec=D:=&'a [T]
        requires dims.1 as int * stride as int + dims.0 as int <= u32::MAX as int,
        ensures fits(dims.0, dims.1, stride, data@.len() as int),
                res.dims == dims, res.stride == stride, res.data@ == data@,
                res.wf_geom(),
    //@end
}

// ---- lemmas over the contracts (pure integer reasoning; these lift the per-call contracts to histories) ----

//@obligation props=C11 :: index injectivity: two in-bounds cells of a well-formed view have the same linear index only if they are the same cell, so a write to one addressed cell changes no other cell of the view
pub proof fn lemma_idx_injective(stride: u32, w: u32, x1: u32, y1: u32, x2: u32, y2: u32)
    requires w <= stride, x1 < w, x2 < w, idx(stride, x1, y1) == idx(stride, x2, y2),
    ensures x1 == x2 && y1 == y2,
{
    if y1 < y2 {
        assert((y2 - y1) * stride >= stride) by(nonlinear_arith) requires y2 - y1 >= 1, stride >= 0;
        assert(y2 as int * stride as int == y1 as int * stride as int + (y2 - y1) * stride) by(nonlinear_arith);
    } else if y2 < y1 {
        assert((y1 - y2) * stride >= stride) by(nonlinear_arith) requires y1 - y2 >= 1, stride >= 0;
        assert(y1 as int * stride as int == y2 as int * stride as int + (y1 - y2) * stride) by(nonlinear_arith);
    }
}

//@obligation props=C11 :: slicing law: cell (x,y) of the sub-view produced by resolve_bounds for rectangle (l,t,..) is cell (l+x, t+y) of the parent (start + idx(x,y) = idx(l+x, t+y), same pitch); by induction the aliasing law holds for any nesting depth
pub proof fn lemma_slice_cell(stride: u32, l: u32, t: u32, x: u32, y: u32)
    ensures idx(stride, l, t) + idx(stride, x, y) == (t + y) * stride + (l + x),
{
    assert((t + y) * stride == t * stride + y * stride) by(nonlinear_arith);
}

//@obligation props=C11 :: sub-view well-formedness: a rectangle accepted by resolve_bounds inside a view that fits its data yields a sub-view that fits the sub-range handed to it (so the constructor accepts it and every in-bounds cell of the sub-view lies inside the sub-range)
pub proof fn lemma_subview_fits(w: u32, h: u32, stride: u32, l: u32, t: u32, r: u32, b: u32)
    requires w <= stride, l <= r <= w, t <= b <= h,
    ensures fits((r - l) as u32, (b - t) as u32, stride, if b > t && r > l { (b - t - 1) * stride + (r - l) } else { 0 }),
            b > t ==> idx(stride, l, t) + (b - t - 1) * stride + (r - l) <= (h - 1) * stride + w,
{
    if b > t {
        assert(idx(stride, l, t) + (b - t - 1) * stride + (r - l) == (b - 1) * stride + r) by(nonlinear_arith);
        assert((b - 1) * stride <= (h - 1) * stride) by(nonlinear_arith) requires b <= h, stride >= 0;
    }
}

//@obligation props=C11 :: row law: row y of a view of non-zero width occupies the linear range [y*stride, y*stride + w), rows of distinct y are disjoint, and all rows lie inside the extent (h-1)*stride + w; so h rows of w elements exist and agree with point indexing
pub proof fn lemma_rows_disjoint(w: u32, h: u32, stride: u32, y1: u32, y2: u32)
    requires w <= stride, y1 < y2, y2 < h,
    ensures idx(stride, 0, y1) + w <= idx(stride, 0, y2),
            idx(stride, 0, y2) + w <= (h - 1) * stride + w,
{
    assert(y2 as int * stride as int >= (y1 + 1) * stride) by(nonlinear_arith) requires y2 >= y1 + 1, stride >= 0;
    assert((y1 + 1) * stride == y1 * stride + stride) by(nonlinear_arith);
    assert(y2 as int * stride as int <= (h - 1) * stride) by(nonlinear_arith) requires y2 <= h - 1, stride >= 0;
}

} // verus!
fn main() {}
